//! C11/C12/C13: the REAL `NamingActor`, driven through its real mailbox (`NamingCmd`,
//! `NamingRaftReq`) inside an actix `System`, with a logical clock (verif_hooks::clock) and
//! hooked small time-outs.  After every op the bookkeeping state is dumped read-only.
//!
//! numeric ids <-> strings: namespace n -> "n<n>", group g -> "g<g>", service s -> "s<s>",
//! instance key k -> ip "10.0.0.<k/8>" port 8000+k%8, client c -> "" (0) | "c<c>",
//! metadata m -> {} (0) | {"m":"<m>"}, weight w -> w as f32, threshold q -> q/4.
use super::Suite;
use actix::Addr;
use rnacos::naming::cluster::model::{ProcessRange, SnapshotForReceive};
use rnacos::naming::core::{NamingActor, NamingCmd, NamingResult};
use rnacos::naming::model::actor_model::{InstanceRegisterParam, NamingRaftReq};
use rnacos::naming::model::{
    DistroData, Instance, InstanceKey, InstanceShortKey, InstanceUpdateTag, ServiceDetailDto,
    ServiceKey,
};
use rnacos::naming::service_index::ServiceQueryParam;
use rnacos::verif_hooks::clock;
use rnacos::verif_hooks::naming::{instance_json, VerifNamingReq};
use serde_json::{json, Value};
use std::collections::{BTreeSet, HashMap, HashSet};
use std::sync::Arc;

pub struct Naming {
    sys: actix_rt::SystemRunner,
}

impl Naming {
    pub fn new() -> Self {
        Naming {
            sys: actix_rt::System::new(),
        }
    }
}

fn arc(s: String) -> Arc<String> {
    Arc::new(s)
}
fn u(v: &Value) -> u64 {
    v.as_u64().unwrap_or(0)
}
fn b(v: &Value) -> bool {
    v.as_bool().unwrap_or(false)
}
fn ns_s(n: u64) -> String {
    format!("n{}", n)
}
fn g_s(n: u64) -> String {
    format!("g{}", n)
}
fn s_s(n: u64) -> String {
    format!("s{}", n)
}
fn client_s(c: u64) -> String {
    if c == 0 {
        String::new()
    } else {
        format!("c{}", c)
    }
}
fn ip_s(k: u64) -> String {
    format!("10.0.0.{}", k / 8)
}
fn port_of(k: u64) -> u32 {
    8000 + (k % 8) as u32
}
fn meta_of(m: u64) -> Arc<HashMap<String, String>> {
    let mut h = HashMap::new();
    if m != 0 {
        h.insert("m".to_owned(), m.to_string());
    }
    Arc::new(h)
}

fn skey(v: &Value) -> ServiceKey {
    ServiceKey::new(&ns_s(u(&v[0])), &g_s(u(&v[1])), &s_s(u(&v[2])))
}
fn short(k: u64) -> InstanceShortKey {
    InstanceShortKey::new(arc(ip_s(k)), port_of(k))
}
fn ikey(sk: &Value, k: u64) -> InstanceKey {
    InstanceKey::new_by_service_key(&skey(sk), arc(ip_s(k)), port_of(k))
}

fn instance(sk: &Value, i: &Value) -> Instance {
    let key = skey(sk);
    let k = u(&i["k"]);
    let mut inst = Instance::new(ip_s(k), port_of(k));
    inst.namespace_id = key.namespace_id.clone();
    inst.group_name = key.group_name.clone();
    inst.service_name = key.service_name.clone();
    inst.weight = u(&i["w"]) as f32;
    inst.enabled = b(&i["en"]);
    inst.healthy = b(&i["he"]);
    inst.ephemeral = b(&i["ep"]);
    inst.metadata = meta_of(u(&i["md"]));
    inst.from_grpc = b(&i["fg"]);
    inst.from_cluster = u(&i["fc"]);
    inst.client_id = arc(client_s(u(&i["cl"])));
    if let Some(cn) = i["cn"].as_str() {
        inst.cluster_name = cn.to_owned();
    }
    inst
}

/// optional cluster filter string of a query op (4th element)
fn cluster_of(op: &Value) -> String {
    op[3].as_str().unwrap_or("").to_owned()
}

fn tag(v: &Value) -> Option<InstanceUpdateTag> {
    if v.is_null() {
        return None;
    }
    Some(InstanceUpdateTag {
        weight: b(&v[0]),
        metadata: b(&v[1]),
        enabled: b(&v[2]),
        ephemeral: b(&v[3]),
        from_update: b(&v[4]),
    })
}

// ---- strings back to numbers -------------------------------------------------------------
fn num_suffix(s: &str) -> Value {
    if s.is_empty() {
        return json!(0);
    }
    match s[1..].parse::<u64>() {
        Ok(n) => json!(n),
        Err(_) => json!(s),
    }
}
fn key_num(ip: &str, port: u64) -> Value {
    let last = ip.rsplit('.').next().unwrap_or("0").parse::<u64>().unwrap_or(9999);
    json!(last * 8 + (port - 8000))
}
fn meta_num(m: &Value) -> Value {
    match m.get("m") {
        Some(v) => json!(v.as_str().unwrap_or("0").parse::<u64>().unwrap_or(9999)),
        None => json!(0),
    }
}
fn inst_num(i: &Value) -> Value {
    json!({
        "k": key_num(i["ip"].as_str().unwrap(), u(&i["port"])),
        "w": i["weight"].as_f64().unwrap_or(-1.0) as i64,
        "en": i["enabled"], "he": i["healthy"], "ep": i["ephemeral"],
        "md": meta_num(&i["metadata"]),
        "lm": i["last_modified"],
        "fg": i["from_grpc"], "fc": i["from_cluster"],
        "cl": num_suffix(i["client_id"].as_str().unwrap()),
    })
}
fn sk_num(v: &Value) -> Value {
    json!([
        num_suffix(v[0].as_str().unwrap()),
        num_suffix(v[1].as_str().unwrap()),
        num_suffix(v[2].as_str().unwrap())
    ])
}
fn short_num(v: &Value) -> Value {
    key_num(v[0].as_str().unwrap(), u(&v[1]))
}
fn sorted(mut v: Vec<Value>) -> Value {
    v.sort_by_key(|x| x.to_string());
    Value::Array(v)
}
fn ts_num<F: Fn(&Value) -> Value>(v: &Value, f: F) -> Value {
    sorted(
        v.as_array()
            .unwrap()
            .iter()
            .map(|e| json!([e[0], f(&e[1])]))
            .collect(),
    )
}

fn dump_num(d: &Value) -> Value {
    let mut services = vec![];
    for s in d["services"].as_array().unwrap() {
        let mut insts: Vec<(u64, Value)> = s["instances"]
            .as_array()
            .unwrap()
            .iter()
            .map(|e| {
                let n = inst_num(&e[1]);
                // the map key and the key inside the record must agree
                let mk = short_num(&e[0]);
                (u(&mk), json!({"mk": mk, "i": n}))
            })
            .collect();
        insts.sort_by_key(|x| x.0);
        let mut perp: Vec<u64> = s["perpetual"].as_array().unwrap().iter().map(|e| u(&short_num(e))).collect();
        perp.sort();
        let mut meta: Vec<(u64, Value)> = s["meta_map"]
            .as_array()
            .unwrap()
            .iter()
            .map(|e| (u(&short_num(&e[0])), meta_num(&e[1])))
            .collect();
        meta.sort_by_key(|x| x.0);
        services.push(json!({
            "map_key": sk_num(&s["map_key"]), "key": sk_num(&s["key"]),
            "size": s["instance_size"], "hsize": s["healthy_instance_size"],
            "instances": insts.into_iter().map(|x| x.1).collect::<Vec<_>>(),
            "perpetual": perp,
            "meta_map": meta.into_iter().map(|(k, m)| json!([k, m])).collect::<Vec<_>>(),
            "hset": ts_num(&s["hset"], short_num),
            "uset": ts_num(&s["uset"], short_num),
            "thr4": (s["protect_threshold"].as_f64().unwrap_or(-1.0) * 4.0) as i64,
            "last_empty": s["last_empty_times"],
        }));
    }
    // the iteration order of service_map (a HashMap order): what time_check's budget cut-off depends on
    let order: Vec<Value> = services.iter().map(|x| x["map_key"].clone()).collect();
    services.sort_by_key(|x| {
        let k = &x["map_key"];
        (u(&k[0]), u(&k[1]), u(&k[2]))
    });
    let mut clients: Vec<(u64, Value)> = d["clients"]
        .as_array()
        .unwrap()
        .iter()
        .map(|e| {
            let c = u(&num_suffix(e[0].as_str().unwrap()));
            let mut keys: Vec<(u64, u64, u64, u64)> = e[1]
                .as_array()
                .unwrap()
                .iter()
                .map(|k| {
                    let sk = sk_num(k);
                    (u(&sk[0]), u(&sk[1]), u(&sk[2]), u(&key_num(k[3].as_str().unwrap(), u(&k[4]))))
                })
                .collect();
            keys.sort();
            (c, json!([c, keys.into_iter().map(|(a, b2, c2, d2)| json!([a, b2, c2, d2])).collect::<Vec<_>>()]))
        })
        .collect();
    clients.sort_by_key(|x| x.0);
    let ns: Vec<Value> = d["index"]["ns"]
        .as_array()
        .unwrap()
        .iter()
        .map(|e| {
            let groups: Vec<Value> = e[2]
                .as_array()
                .unwrap()
                .iter()
                .map(|g| {
                    json!([
                        num_suffix(g[0].as_str().unwrap()),
                        g[1].as_array().unwrap().iter().map(|x| num_suffix(x.as_str().unwrap())).collect::<Vec<_>>()
                    ])
                })
                .collect();
            json!([num_suffix(e[0].as_str().unwrap()), e[1], groups])
        })
        .collect();
    json!({
        "services": services,
        "clients": clients.into_iter().map(|x| x.1).collect::<Vec<_>>(),
        "index": {"size": d["index"]["service_size"], "ns": ns},
        "empty_set": ts_num(&d["empty_set"], sk_num),
        "meta_set": ts_num(&d["meta_set"], |k| {
            let sk = sk_num(k);
            json!([sk[0], sk[1], sk[2], key_num(k[3].as_str().unwrap(), u(&k[4]))])
        }),
        "range": d["range"],
        "order": order,
    })
}

fn inst_list(list: &[Arc<Instance>]) -> Value {
    let mut v: Vec<(u64, Value)> = list
        .iter()
        .map(|i| {
            let n = inst_num(&instance_json(i));
            (u(&n["k"]), n)
        })
        .collect();
    v.sort_by_key(|x| x.0);
    Value::Array(v.into_iter().map(|x| x.1).collect())
}

async fn send(addr: &Addr<NamingActor>, cmd: NamingCmd) -> Result<NamingResult, String> {
    match addr.send(cmd).await {
        Ok(Ok(r)) => Ok(r),
        Ok(Err(e)) => Err(format!("err:{}", e)),
        Err(e) => Err(format!("mailbox:{}", e)),
    }
}

async fn run_case(case: Value) -> Value {
    let cfg = &case["cfg"];
    let mut now: i64 = cfg["t0"].as_i64().unwrap_or(1_000_000);
    // "real": no clock override, ticks are real sleeps (the wall-clock part of C13)
    let real = cfg["real"].as_bool().unwrap_or(false);
    if real {
        clock::clear();
    } else {
        clock::set(now);
    }
    let addr = NamingActor::new().start_here();
    let _ = addr
        .send(VerifNamingReq::SetConfig(
            cfg["h"].as_i64().unwrap_or(300),
            cfg["i"].as_i64().unwrap_or(600),
            cfg["s"].as_u64().unwrap_or(1000),
            cfg["m"].as_u64().unwrap_or(2000),
            cfg["n"].as_u64().unwrap_or(10000) as usize,
        ))
        .await;
    let dump_all = case["dump"].as_str().unwrap_or("all") == "all";
    let dump_none = case["dump"].as_str().unwrap_or("all") == "none";
    let mut times: BTreeSet<u64> = BTreeSet::new();
    let sto = cfg["s"].as_u64().unwrap_or(1000);
    let mto = cfg["m"].as_u64().unwrap_or(2000);
    let mut outs = vec![];
    let ops = case["ops"].as_array().cloned().unwrap_or_default();
    let nops = ops.len();
    for (ix, op) in ops.iter().enumerate() {
        times.insert(now as u64);
        times.insert(now as u64 + sto);
        times.insert(now as u64 + mto);
        let name = op[0].as_str().unwrap_or("");
        let out: Value = match name {
            "upd" => {
                let inst = instance(&op[1], &op[2]);
                let cmd = if b(&op[4]) {
                    NamingCmd::UpdateFromSync(inst, tag(&op[3]))
                } else {
                    NamingCmd::Update(inst, tag(&op[3]))
                };
                match send(&addr, cmd).await {
                    Ok(NamingResult::RewriteToCluster(..)) => json!("rewrite"),
                    Ok(_) => json!("ok"),
                    Err(e) => json!(e),
                }
            }
            "batch" => {
                let v: Vec<Instance> = op[1].as_array().unwrap().iter().map(|e| instance(&e[0], &e[1])).collect();
                match send(&addr, NamingCmd::UpdateBatch(v)).await {
                    Ok(_) => json!("ok"),
                    Err(e) => json!(e),
                }
            }
            "del" => match send(&addr, NamingCmd::Delete(instance(&op[1], &op[2]))).await {
                Ok(_) => json!("ok"),
                Err(e) => json!(e),
            },
            "delbatch" => {
                let v: Vec<Instance> = op[1].as_array().unwrap().iter().map(|e| instance(&e[0], &e[1])).collect();
                match send(&addr, NamingCmd::DeleteBatch(v)).await {
                    Ok(_) => json!("ok"),
                    Err(e) => json!(e),
                }
            }
            "rmclient" => match send(&addr, NamingCmd::RemoveClient(arc(client_s(u(&op[1]))))).await {
                Ok(_) => json!("ok"),
                Err(e) => json!(e),
            },
            "rmclient_cluster" => {
                match send(&addr, NamingCmd::RemoveClientFromCluster(arc(client_s(u(&op[1]))))).await {
                    Ok(_) => json!("ok"),
                    Err(e) => json!(e),
                }
            }
            "rmclients" => {
                let v = op[1].as_array().unwrap().iter().map(|c| arc(client_s(u(c)))).collect();
                match send(&addr, NamingCmd::RemoveClientsFromCluster(v)).await {
                    Ok(_) => json!("ok"),
                    Err(e) => json!(e),
                }
            }
            "tick" => {
                now += op[1].as_i64().unwrap_or(0);
                if real {
                    actix_rt::time::sleep(std::time::Duration::from_millis(op[1].as_u64().unwrap_or(0))).await;
                } else {
                    clock::set(now);
                }
                json!("ok")
            }
            "check" => match send(&addr, NamingCmd::PeekListenerTimeout).await {
                Ok(_) => json!("ok"),
                Err(e) => json!(e),
            },
            "clear" => match addr.send(VerifNamingReq::ClearEmptyService).await {
                Ok(Ok(_)) => json!("ok"),
                _ => json!("err"),
            },
            "clearmeta" => match addr.send(VerifNamingReq::ClearTimeoutInstanceMetadata).await {
                Ok(Ok(_)) => json!("ok"),
                _ => json!("err"),
            },
            "rmsvc" => match send(&addr, NamingCmd::RemoveService(skey(&op[1]))).await {
                Ok(_) => json!("ok"),
                Err(_) => json!("err"),
            },
            "svc" | "svc_cluster" => {
                let key = skey(&op[1]);
                let dto = ServiceDetailDto {
                    namespace_id: key.namespace_id.clone(),
                    service_name: key.service_name.clone(),
                    group_name: key.group_name.clone(),
                    metadata: None,
                    protect_threshold: if op[2].is_null() { None } else { Some(u(&op[2]) as f32 / 4.0) },
                    ..Default::default()
                };
                let cmd = if name == "svc" { NamingCmd::UpdateService(dto) } else { NamingCmd::UpdateServiceFromCluster(dto) };
                match send(&addr, cmd).await {
                    Ok(_) => json!("ok"),
                    Err(e) => json!(e),
                }
            }
            "range" => {
                let r = ProcessRange::new(u(&op[1]) as usize, u(&op[2]) as usize);
                match send(&addr, NamingCmd::ClusterRefreshProcessRange(r)).await {
                    Ok(_) => json!("ok"),
                    Err(e) => json!(e),
                }
            }
            "sniff" => {
                let cmd = NamingCmd::PerpetualHostSniffing {
                    host: short(u(&op[1])),
                    service_keys: op[2].as_array().unwrap().iter().map(skey).collect(),
                    success: b(&op[3]),
                };
                match send(&addr, cmd).await {
                    Ok(_) => json!("ok"),
                    Err(e) => json!(e),
                }
            }
            "raft" => {
                let inst = instance(&op[2], &op[3]);
                let param: InstanceRegisterParam = (&inst).into();
                let req = if op[1].as_str() == Some("reg") {
                    NamingRaftReq::RegisterInstance { param }
                } else {
                    NamingRaftReq::UpdateInstance { param }
                };
                match addr.send(req).await {
                    Ok(Ok(_)) => json!("ok"),
                    _ => json!("err"),
                }
            }
            "raftrm" => {
                let req = NamingRaftReq::RemoveInstance(ikey(&op[1], u(&op[2])));
                match addr.send(req).await {
                    Ok(Ok(_)) => json!("ok"),
                    _ => json!("err"),
                }
            }
            "diff" => {
                let mut data: HashMap<Arc<String>, HashSet<InstanceKey>> = HashMap::new();
                for e in op[2].as_array().unwrap() {
                    let set: HashSet<InstanceKey> =
                        e[1].as_array().unwrap().iter().map(|x| ikey(&x[0], u(&x[1]))).collect();
                    data.insert(arc(client_s(u(&e[0]))), set);
                }
                let cmd = NamingCmd::DiffGrpcDistroData {
                    cluster_id: u(&op[1]),
                    data: DistroData::ClientInstances(data),
                };
                match send(&addr, cmd).await {
                    Ok(NamingResult::DiffDistroData(DistroData::DiffClientInstances(v))) => {
                        let mut ks: Vec<Value> = v
                            .iter()
                            .map(|k| {
                                json!([
                                    num_suffix(&k.namespace_id), num_suffix(&k.group_name), num_suffix(&k.service_name),
                                    key_num(&k.ip, k.port as u64)
                                ])
                            })
                            .collect();
                        ks.sort_by_key(|x| x.to_string());
                        json!({ "new": ks })
                    }
                    Ok(_) => json!("ok"),
                    Err(e) => json!(e),
                }
            }
            "snap" => {
                let services = op[1]
                    .as_array()
                    .unwrap()
                    .iter()
                    .map(|e| {
                        let key = skey(&e[0]);
                        ServiceDetailDto {
                            namespace_id: key.namespace_id.clone(),
                            service_name: key.service_name.clone(),
                            group_name: key.group_name.clone(),
                            metadata: None,
                            protect_threshold: if e[1].is_null() { None } else { Some(u(&e[1]) as f32 / 4.0) },
                            ..Default::default()
                        }
                    })
                    .collect();
                let instances = op[2].as_array().unwrap().iter().map(|e| instance(&e[0], &e[1])).collect();
                let snap = SnapshotForReceive { route_index: 0, node_count: 0, services, instances };
                match send(&addr, NamingCmd::ReceiveSnapshot(snap)).await {
                    Ok(_) => json!("ok"),
                    Err(e) => json!(e),
                }
            }
            // ---------------- queries
            "qlist" => match send(&addr, NamingCmd::QueryList(skey(&op[1]), cluster_of(op), b(&op[2]), None)).await {
                Ok(NamingResult::InstanceList(l)) => json!({ "hosts": inst_list(&l) }),
                _ => json!("err"),
            },
            "qstr" => {
                match send(&addr, NamingCmd::QueryListString(skey(&op[1]), cluster_of(op), b(&op[2]), None)).await {
                    Ok(NamingResult::InstanceListString(s)) => {
                        let v: Value = serde_json::from_str(&s).unwrap_or(Value::Null);
                        let mut hosts: Vec<(u64, Value)> = v["hosts"]
                            .as_array()
                            .cloned()
                            .unwrap_or_default()
                            .iter()
                            .map(|h| {
                                let k = key_num(h["ip"].as_str().unwrap(), u(&h["port"]));
                                (
                                    u(&k),
                                    json!({"k": k, "w": h["weight"].as_f64().unwrap_or(-1.0) as i64, "he": h["healthy"],
                                           "en": h["enabled"], "ep": h["ephemeral"], "md": meta_num(&h["metadata"])}),
                                )
                            })
                            .collect();
                        hosts.sort_by_key(|x| x.0);
                        json!({ "hosts": hosts.into_iter().map(|x| x.1).collect::<Vec<_>>() })
                    }
                    _ => json!("err"),
                }
            }
            "qinfo" => match send(&addr, NamingCmd::QueryServiceInfo(skey(&op[1]), cluster_of(op), b(&op[2]))).await {
                Ok(NamingResult::ServiceInfo(info)) => {
                    json!({"hosts": inst_list(&info.hosts.unwrap_or_default()), "reach": info.reach_protection_threshold})
                }
                _ => json!("err"),
            },
            "qall" => match send(&addr, NamingCmd::QueryAllInstanceList(skey(&op[1]))).await {
                Ok(NamingResult::InstanceList(l)) => json!({ "hosts": inst_list(&l) }),
                _ => json!("err"),
            },
            "qone" => {
                let mut i = Instance::new(ip_s(u(&op[2])), port_of(u(&op[2])));
                let key = skey(&op[1]);
                i.namespace_id = key.namespace_id.clone();
                i.group_name = key.group_name.clone();
                i.service_name = key.service_name.clone();
                match send(&addr, NamingCmd::Query(i)).await {
                    Ok(NamingResult::Instance(i)) => json!({ "i": inst_num(&instance_json(&i)) }),
                    Ok(_) => json!("none"),
                    _ => json!("err"),
                }
            }
            "qpage" => {
                // all services of one namespace (or all namespaces when null), with the reported counters
                let param = ServiceQueryParam {
                    namespace_id: if op[1].is_null() { None } else { Some(arc(ns_s(u(&op[1])))) },
                    limit: 0xffff_ffff,
                    ..Default::default()
                };
                match send(&addr, NamingCmd::QueryServiceInfoPage(param)).await {
                    Ok(NamingResult::ServiceInfoPage((size, list))) => {
                        let l: Vec<Value> = list
                            .iter()
                            .map(|s| {
                                json!([num_suffix(&s.group_name), num_suffix(&s.service_name), s.instance_size, s.healthy_instance_size])
                            })
                            .collect();
                        json!({"size": size, "list": l})
                    }
                    _ => json!("err"),
                }
            }
            "qsvcpage" => {
                match send(&addr, NamingCmd::QueryServicePage(skey(&op[1]), u(&op[2]) as usize, u(&op[3]) as usize)).await {
                    Ok(NamingResult::ServicePage((size, list))) => {
                        json!({"size": size, "list": list.iter().map(|s| num_suffix(s)).collect::<Vec<_>>()})
                    }
                    _ => json!("err"),
                }
            }
            "qsvc" => match send(&addr, NamingCmd::QueryServiceOnly(skey(&op[1]))).await {
                Ok(NamingResult::ServiceDto(Some(s))) => json!({"size": s.instance_size, "hsize": s.healthy_instance_size}),
                Ok(NamingResult::ServiceDto(None)) => json!("none"),
                _ => json!("err"),
            },
            "qclients" => match send(&addr, NamingCmd::QueryClientInstanceCount).await {
                Ok(NamingResult::ClientInstanceCount(v)) => {
                    let mut l: Vec<(u64, usize)> = v.iter().map(|(c, n)| (u(&num_suffix(c)), *n)).collect();
                    l.sort();
                    json!({ "counts": l })
                }
                _ => json!("err"),
            },
            "hash" => match addr.send(VerifNamingReq::HashOf(skey(&op[1]))).await {
                Ok(Ok(v)) => json!({ "hash": v.to_string() }),
                _ => json!("err"),
            },
            _ => json!("?"),
        };
        times.insert(now as u64);
        times.insert(now as u64 + sto);
        times.insert(now as u64 + mto);
        let st = if !dump_none && (dump_all || ix + 1 == nops) {
            let ts: Vec<u64> = times.iter().cloned().collect();
            match addr.send(VerifNamingReq::Dump(ts)).await {
                Ok(Ok(d)) => dump_num(&d),
                _ => json!("dump-failed"),
            }
        } else {
            Value::Null
        };
        outs.push(json!({"out": out, "st": st, "now": now}));
    }
    clock::clear();
    json!({"r": "ok", "steps": outs})
}

impl Suite for Naming {
    fn run(&mut self, case: &Value) -> Value {
        use actix::Actor;
        let _ = NamingActor::new; // keep the import used
        let c = case.clone();
        let r = std::panic::catch_unwind(std::panic::AssertUnwindSafe(|| self.sys.block_on(run_case(c))));
        clock::clear();
        match r {
            Ok(v) => v,
            Err(_) => json!({"r": "panic"}),
        }
    }
}

trait StartHere {
    fn start_here(self) -> Addr<NamingActor>;
}
impl StartHere for NamingActor {
    fn start_here(self) -> Addr<NamingActor> {
        use actix::Actor;
        self.start()
    }
}
