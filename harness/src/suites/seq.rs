//! C19: the REAL sequence structures.
//!  k=simple : rnacos::common::sequence_utils::SimpleSequence driven by a script
//!  k=group  : rnacos::sequence::model::SeqGroup driven by a script (state dumped through serde)
//!  k=db     : a started SequenceDbManager actor (SequenceRaftReq messages; snapshot build through a
//!             real SnapshotWriterActor, read back with SnapshotReader, loaded with LoadSnapshotRecord)
//!  k=mgr    : several nodes, each a real SequenceManager struct (do_next_id / SeqGroup via hooks),
//!             drawing ranges from one started SequenceDbManager (the replicated counter).  The
//!             asynchronous part of SequenceManager (raft round trip, handle_result) is scripted:
//!             "get" = GetNextId incl. the UseFromRange path, "fill_start"/"fill_finish" = FillRange.
use super::Suite;
use actix::prelude::*;
use rnacos::common::constant::SEQUENCE_TREE_NAME;
use rnacos::common::sequence_utils::SimpleSequence;
use rnacos::raft::filestore::model::{SnapshotHeaderDto, SnapshotRecordDto};
use rnacos::raft::filestore::raftapply::RaftApplyDataRequest;
use rnacos::raft::filestore::raftsnapshot::{
    SnapshotReader, SnapshotWriterActor, SnapshotWriterRequest,
};
use rnacos::sequence::core::verif::VerifSeqDbDump;
use rnacos::sequence::core::SequenceDbManager;
use rnacos::sequence::model::{SeqGroup, SequenceRaftReq, SequenceRaftResult};
use rnacos::sequence::SequenceManager;
use serde_json::{json, Value};
use std::collections::HashMap;
use std::panic::{catch_unwind, AssertUnwindSafe};
use std::sync::Arc;

pub struct Seq {}

impl Seq {
    pub fn new() -> Self {
        Seq {}
    }
}

fn u(v: &Value) -> u64 {
    v.as_u64().unwrap_or(0)
}

fn simple(case: &Value) -> Value {
    let mut s = SimpleSequence::new(u(&case["init"][0]), u(&case["init"][1]));
    let mut out = vec![];
    for op in case["ops"].as_array().unwrap() {
        let r = match op[0].as_str().unwrap_or("") {
            "next_state" => match catch_unwind(AssertUnwindSafe(|| s.next_state())) {
                Ok(Ok((id, mark))) => json!([id, mark]),
                Ok(Err(_)) => json!("err"),
                Err(_) => return json!({"r":"panic","out":out}),
            },
            "next_id" => match catch_unwind(AssertUnwindSafe(|| s.next_id())) {
                Ok(id) => json!(id),
                Err(_) => return json!({"r":"panic","out":out}),
            },
            "set_last" => {
                s.set_last_id(u(&op[1]));
                json!("ok")
            }
            "set_valid" => {
                s.set_valid_last_id(u(&op[1]));
                json!("ok")
            }
            "section" => match s.next_section(u(&op[1])) {
                Ok((a, b)) => json!([a, b]),
                Err(_) => json!("err"),
            },
            "end" => json!(s.get_end_id()),
            "state" => {
                let (l, c, b) = s.verif_state();
                json!({"last": l, "cache": c, "batch": b})
            }
            _ => json!("?"),
        };
        out.push(r);
    }
    json!({"r":"ok","out":out})
}

fn group_dump(g: &SeqGroup) -> Value {
    serde_json::to_value(g).unwrap_or(Value::Null)
}

fn group(case: &Value) -> Value {
    let mut g = SeqGroup::new(u(&case["step"]));
    let mut out = vec![];
    for op in case["ops"].as_array().unwrap() {
        let r = match op[0].as_str().unwrap_or("") {
            "next" => json!(g.next_id()),
            "apply" => {
                g.apply_range(u(&op[1]), u(&op[2]));
                json!("ok")
            }
            "need" => json!(g.need_apply()),
            "mark" => {
                g.mark_apply();
                json!("ok")
            }
            "clear" => {
                g.clear_apply_mark();
                json!("ok")
            }
            "dump" => group_dump(&g),
            _ => json!("?"),
        };
        out.push(r);
    }
    json!({"r":"ok","out":out})
}

fn req_of(op: &Value) -> SequenceRaftReq {
    let key = Arc::new(op[2].as_str().unwrap_or("").to_owned());
    match op[1].as_str().unwrap_or("") {
        "next_id" => SequenceRaftReq::NextId(key),
        "next_range" => SequenceRaftReq::NextRange(key, u(&op[3])),
        "set" => SequenceRaftReq::SetId(key, u(&op[3])),
        _ => SequenceRaftReq::RemoveId(key),
    }
}

fn res_json(r: SequenceRaftResult) -> Value {
    match r {
        SequenceRaftResult::NextId(id) => json!({ "id": id }),
        SequenceRaftResult::NextRange { start, len } => json!({"start": start, "len": len}),
        SequenceRaftResult::None => json!("none"),
    }
}

async fn db_dump(addr: &Addr<SequenceDbManager>) -> Value {
    let mut l: Vec<(String, u64)> = addr
        .send(VerifSeqDbDump)
        .await
        .unwrap_or_default()
        .into_iter()
        .map(|(k, v)| (k.to_string(), v))
        .collect();
    l.sort();
    json!(l)
}

async fn db_case(case: Value) -> Value {
    let mut addr = SequenceDbManager::new().start();
    let mut snaps: HashMap<u64, Vec<SnapshotRecordDto>> = HashMap::new();
    let mut dirs = vec![];
    let mut out = vec![];
    for op in case["ops"].as_array().unwrap() {
        let r = match op[0].as_str().unwrap_or("") {
            "req" => match addr.send(req_of(op)).await {
                Ok(Ok(r)) => res_json(r),
                _ => json!("err"),
            },
            "dump" => db_dump(&addr).await,
            "snapshot" => {
                let sid = u(&op[1]);
                let dir = tempfile::tempdir().unwrap();
                let path = Arc::new(dir.path().join("snap").to_string_lossy().to_string());
                let header = SnapshotHeaderDto {
                    last_index: 1,
                    last_term: 1,
                    member: vec![1],
                    member_after_consensus: vec![],
                    node_addrs: HashMap::new(),
                };
                let writer = SnapshotWriterActor::new(path.clone(), header).start();
                addr.send(RaftApplyDataRequest::BuildSnapshot(writer.clone()))
                    .await
                    .ok();
                writer.send(SnapshotWriterRequest::Flush).await.ok();
                writer.send(SnapshotWriterRequest::Flush).await.ok();
                let mut recs = vec![];
                if let Ok(mut reader) = SnapshotReader::init(path.as_str()).await {
                    while let Ok(Some(r)) = reader.read_record().await {
                        recs.push(r);
                    }
                }
                dirs.push(dir);
                let mut l: Vec<(String, u64)> = recs
                    .iter()
                    .filter(|r| r.tree.as_str() == SEQUENCE_TREE_NAME.as_str())
                    .map(|r| {
                        (
                            String::from_utf8_lossy(&r.key).to_string(),
                            rnacos::common::byte_utils::bin_to_id(&r.value),
                        )
                    })
                    .collect();
                l.sort();
                snaps.insert(sid, recs);
                json!(l)
            }
            "restart" => {
                addr = SequenceDbManager::new().start();
                json!("ok")
            }
            "load" => {
                let recs = snaps.get(&u(&op[1])).cloned().unwrap_or_default();
                for r in recs {
                    addr.send(RaftApplyDataRequest::LoadSnapshotRecord(r)).await.ok();
                }
                addr.send(RaftApplyDataRequest::LoadCompleted).await.ok();
                json!("ok")
            }
            _ => json!("?"),
        };
        out.push(r);
    }
    json!({"r":"ok","out":out})
}

struct MgrNode {
    mgr: SequenceManager,
    inflight: HashMap<String, (u64, u64)>,
}

async fn mgr_case(case: Value) -> Value {
    let db = SequenceDbManager::new().start();
    let n = u(&case["nodes"]).max(1) as usize;
    let mut nodes: Vec<MgrNode> = (0..n)
        .map(|_| MgrNode {
            mgr: SequenceManager::new(),
            inflight: HashMap::new(),
        })
        .collect();
    let mut out = vec![];
    for op in case["ops"].as_array().unwrap() {
        let name = op[0].as_str().unwrap_or("");
        let ni = u(&op[1]) as usize % n;
        let key = Arc::new(op[2].as_str().unwrap_or("").to_owned());
        let r = match name {
            // SequenceRequest::GetNextId: do_next_id; when the cache is empty: NextRange through the
            // replicated counter, then handle_result(UseFromRange): apply_range + do_next_id
            "get" => {
                let step = nodes[ni].mgr.verif_step();
                let (v, need) = nodes[ni].mgr.verif_do_next_id(&key);
                if let Some(id) = v {
                    json!({"id": id, "need": need})
                } else {
                    match db.send(SequenceRaftReq::NextRange(key.clone(), step)).await {
                        Ok(Ok(SequenceRaftResult::NextRange { start, len })) => {
                            if let Some(g) = nodes[ni].mgr.verif_group(&key) {
                                g.apply_range(start, len);
                            }
                            let (v2, _) = nodes[ni].mgr.verif_do_next_id(&key);
                            json!({"id": v2, "need": false, "range": [start, len]})
                        }
                        _ => json!("err"),
                    }
                }
            }
            // SequenceRequest::FillRange, first half: need_apply -> mark_apply -> NextRange round trip
            "fill_start" => {
                let step = nodes[ni].mgr.verif_step();
                let go = match nodes[ni].mgr.verif_group(&key) {
                    Some(g) => {
                        if g.need_apply() {
                            g.mark_apply();
                            true
                        } else {
                            false
                        }
                    }
                    None => false,
                };
                if go {
                    match db.send(SequenceRaftReq::NextRange(key.clone(), step)).await {
                        Ok(Ok(SequenceRaftResult::NextRange { start, len })) => {
                            nodes[ni].inflight.insert(key.to_string(), (start, len));
                            json!({"range": [start, len]})
                        }
                        _ => json!("err"),
                    }
                } else {
                    json!("ignore")
                }
            }
            // second half: handle_result(FillRange): apply_range + clear_apply_mark
            "fill_finish" => {
                if let Some((start, len)) = nodes[ni].inflight.remove(key.as_str()) {
                    if let Some(g) = nodes[ni].mgr.verif_group(&key) {
                        g.apply_range(start, len);
                        g.clear_apply_mark();
                    }
                    json!("ok")
                } else {
                    json!("none")
                }
            }
            "dump" => match nodes[ni].mgr.verif_group(&key) {
                Some(g) => group_dump(g),
                None => Value::Null,
            },
            "direct" => match db.send(SequenceRaftReq::NextRange(key.clone(), u(&op[3]))).await {
                Ok(Ok(SequenceRaftResult::NextRange { start, len })) => json!({"range": [start, len]}),
                _ => json!("err"),
            },
            _ => json!("?"),
        };
        out.push(r);
    }
    json!({"r":"ok","out":out,"db": db_dump(&db).await})
}

impl Suite for Seq {
    fn run(&mut self, case: &Value) -> Value {
        match case["k"].as_str().unwrap_or("") {
            "simple" => simple(case),
            "group" => match catch_unwind(AssertUnwindSafe(|| group(case))) {
                Ok(v) => v,
                Err(_) => json!({"r":"panic"}),
            },
            "db" => {
                let c = case.clone();
                match catch_unwind(AssertUnwindSafe(|| {
                    actix_rt::System::new().block_on(db_case(c))
                })) {
                    Ok(v) => v,
                    Err(_) => json!({"r":"panic"}),
                }
            }
            "mgr" => {
                let c = case.clone();
                match catch_unwind(AssertUnwindSafe(|| {
                    actix_rt::System::new().block_on(mgr_case(c))
                })) {
                    Ok(v) => v,
                    Err(_) => json!({"r":"panic"}),
                }
            }
            _ => json!({"r":"badcase"}),
        }
    }
}
