//! NamespaceActor at component level: the REAL actor driven by raft requests, weak-namespace
//! notifications, snapshot build (real SnapshotWriterActor / SnapshotReader) and snapshot records
//! loaded into a fresh actor or over the LIVE state of a running one.
//! case: {"ops": [["req", <NamespaceRaftReq json>] | ["weak", id, "Config"|"Naming"] | ["unweak", id, t]
//!                | ["snap", sid] | ["fresh"] | ["load", sid]]}
//! out:  after every op [[id, name, flag] sorted by id, ...]
use super::Suite;
use actix::prelude::*;
use rnacos::namespace::model::{
    NamespaceActorReq, NamespaceQueryReq, NamespaceQueryResult, NamespaceRaftReq, WeakNamespaceFromType, WeakNamespaceParam,
};
use rnacos::namespace::NamespaceActor;
use rnacos::raft::filestore::model::{SnapshotHeaderDto, SnapshotRecordDto};
use rnacos::raft::filestore::raftapply::RaftApplyDataRequest;
use rnacos::raft::filestore::raftsnapshot::{SnapshotReader, SnapshotWriterActor, SnapshotWriterRequest};
use serde_json::{json, Value};
use std::collections::HashMap;
use std::panic::{catch_unwind, AssertUnwindSafe};
use std::sync::Arc;

pub struct Ns {}

impl Ns {
    pub fn new() -> Self {
        Ns {}
    }
}

fn from_type(v: &Value) -> WeakNamespaceFromType {
    if v.as_str() == Some("Naming") {
        WeakNamespaceFromType::Naming
    } else {
        WeakNamespaceFromType::Config
    }
}

async fn obs(addr: &Addr<NamespaceActor>) -> Value {
    match addr.send(NamespaceQueryReq::List).await {
        Ok(Ok(NamespaceQueryResult::List(l))) => {
            let mut rows: Vec<(String, String, u32)> = l
                .iter()
                .map(|n| (n.namespace_id.as_str().to_owned(), n.namespace_name.clone(), n.flag))
                .collect();
            rows.sort_by(|a, b| a.0.as_bytes().cmp(b.0.as_bytes()));
            json!(rows.iter().map(|(a, b, c)| json!([a, b, c])).collect::<Vec<_>>())
        }
        _ => json!("list-failed"),
    }
}

/// a started actor in the state `inject()` leaves it in: `init` = set_namespace({"", Some("public"), Some("0")}, false, false)
async fn fresh() -> Addr<NamespaceActor> {
    let addr = NamespaceActor::verif_new(1).start();
    addr.send(NamespaceRaftReq::Set(rnacos::namespace::model::NamespaceParam {
        namespace_id: Arc::new(String::new()),
        namespace_name: Some("public".to_owned()),
        r#type: Some("0".to_owned()),
    }))
    .await
    .ok();
    addr
}

async fn run_script(case: Value) -> Value {
    let mut addr = fresh().await;
    let mut snaps: HashMap<u64, Vec<SnapshotRecordDto>> = HashMap::new();
    let mut dirs = vec![];
    let mut out = vec![];
    for op in case["ops"].as_array().cloned().unwrap_or_default() {
        match op[0].as_str().unwrap_or("") {
            "req" => {
                if let Ok(r) = serde_json::from_value::<NamespaceRaftReq>(op[1].clone()) {
                    addr.send(r).await.ok();
                } else {
                    out.push(json!("bad-req"));
                    continue;
                }
            }
            "weak" | "unweak" => {
                let p = WeakNamespaceParam {
                    namespace_id: Arc::new(op[1].as_str().unwrap_or("").to_owned()),
                    from_type: from_type(&op[2]),
                };
                let m = if op[0].as_str() == Some("weak") { NamespaceActorReq::SetWeak(p) } else { NamespaceActorReq::RemoveWeak(p) };
                addr.send(m).await.ok();
            }
            "snap" => {
                let dir = tempfile::tempdir().unwrap();
                let path = Arc::new(dir.path().join("snap").to_string_lossy().to_string());
                let header = SnapshotHeaderDto {
                    last_index: 1,
                    last_term: 1,
                    member: vec![1],
                    member_after_consensus: vec![],
                    node_addrs: HashMap::new(),
                };
                let writer = SnapshotWriterActor::new(path.clone(), header).start();
                addr.send(RaftApplyDataRequest::BuildSnapshot(writer.clone())).await.ok();
                writer.send(SnapshotWriterRequest::Flush).await.ok();
                writer.send(SnapshotWriterRequest::Flush).await.ok();
                let mut recs = vec![];
                if let Ok(mut reader) = SnapshotReader::init(path.as_str()).await {
                    while let Ok(Some(r)) = reader.read_record().await {
                        recs.push(r);
                    }
                }
                dirs.push(dir);
                snaps.insert(op[1].as_u64().unwrap_or(0), recs);
            }
            "fresh" => {
                addr = fresh().await;
            }
            "load" => {
                for r in snaps.get(&op[1].as_u64().unwrap_or(0)).cloned().unwrap_or_default() {
                    addr.send(RaftApplyDataRequest::LoadSnapshotRecord(r)).await.ok();
                }
                addr.send(RaftApplyDataRequest::LoadCompleted).await.ok();
            }
            _ => {
                out.push(json!("?"));
                continue;
            }
        }
        out.push(obs(&addr).await);
    }
    json!({"r":"ok","out":out})
}

impl Suite for Ns {
    fn run(&mut self, case: &Value) -> Value {
        let c = case.clone();
        match catch_unwind(AssertUnwindSafe(|| {
            let sys = actix::System::new();
            sys.block_on(run_script(c))
        })) {
            Ok(v) => v,
            Err(_) => json!({"r":"panic"}),
        }
    }
}
