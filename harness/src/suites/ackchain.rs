//! C06: the leader-side pieces of the answer chain on a REAL in-process node whose raft core is
//! either leading (single node, auto-init) or not a leader (uninitialised): `ConfigAsyncCmd`
//! (Add / Delete), `handle_route` (ConfigSet / ConfigDel) and `ConfigRoute::{set,del}_config`.
//! On a non-leader `raft.client_write` answers ForwardToLeader: none of the pieces may answer Ok.
use super::Suite;
use rnacos::common::appdata::AppShareData;
use rnacos::common::AppSysConfig;
use rnacos::config::core::{ConfigAsyncCmd, ConfigCmd, ConfigKey, ConfigResult};
use rnacos::raft::cluster::handle_route;
use rnacos::raft::cluster::model::{DelConfigReq, RouterRequest, SetConfigReq};
use rnacos::starter::{build_share_data, config_factory};
use serde_json::{json, Value};
use std::collections::HashMap;
use std::sync::Arc;
use std::time::Duration;

struct N {
    runner: actix_rt::SystemRunner,
    app: Arc<AppShareData>,
    _dir: tempfile::TempDir,
}

fn start(leader: bool) -> N {
    let dir = tempfile::tempdir().expect("tempdir");
    std::env::set_var("RNACOS_DATA_DIR", dir.path().join("db").to_str().unwrap());
    std::env::set_var("RNACOS_RAFT_NODE_ID", "1");
    std::env::set_var("RNACOS_RAFT_AUTO_INIT", if leader { "true" } else { "false" });
    std::env::set_var("RNACOS_RAFT_JOIN_ADDR", "");
    std::env::set_var("RNACOS_CONSOLE_ENABLE_CAPTCHA", "false");
    std::env::set_var("RUST_LOG", "error");
    let runner = actix_rt::System::new();
    let app = runner.block_on(async {
        let sys_config = Arc::new(AppSysConfig::init_from_env());
        let factory_data = config_factory(sys_config).await.expect("config_factory");
        let app = build_share_data(factory_data).expect("build_share_data");
        if leader {
            for _ in 0..400 {
                if app.raft.current_leader().await == Some(1) {
                    break;
                }
                tokio::time::sleep(Duration::from_millis(50)).await;
            }
            tokio::time::sleep(Duration::from_millis(600)).await;
        } else {
            tokio::time::sleep(Duration::from_millis(300)).await;
        }
        app
    });
    N { runner, app, _dir: dir }
}

pub struct AckChain {
    leader: Option<N>,
    other: Option<N>,
}

impl AckChain {
    pub fn new() -> Self {
        AckChain { leader: None, other: None }
    }
}

fn res<T>(r: anyhow::Result<T>) -> Value {
    match r {
        Ok(_) => json!("ok"),
        Err(e) => json!({"err": e.to_string().chars().take(80).collect::<String>()}),
    }
}

/// the state-machine actor asked to apply an entry BEFORE its dependencies are injected (what the raft core of an
/// auto-initialised node can do at start-up): it must stay alive (the request waits), not die on an unwrap
fn bare_apply() -> Value {
    use actix::Actor;
    use rnacos::raft::filestore::model::ApplyRequestDto;
    use rnacos::raft::filestore::raftapply::{StateApplyAsyncRequest, StateApplyManager, StateApplyRequest, StateApplyResponse};
    use rnacos::raft::store::ClientRequest;
    let r = std::panic::catch_unwind(|| {
        let sys = actix_rt::System::new();
        sys.block_on(async {
            let addr = StateApplyManager::new().start();
            let req = StateApplyAsyncRequest::ApplyRequest(ApplyRequestDto::new(1, ClientRequest::Members(vec![1])));
            let first = match tokio::time::timeout(Duration::from_millis(400), addr.send(req)).await {
                Err(_) => "waiting".to_string(),
                Ok(Ok(Ok(_))) => "applied".to_string(),
                Ok(Ok(Err(e))) => format!("error: {}", e),
                Ok(Err(e)) => format!("mailbox: {}", e),
            };
            let alive = matches!(
                tokio::time::timeout(Duration::from_millis(400), addr.send(StateApplyRequest::GetLastAppliedLog)).await,
                Ok(Ok(Ok(StateApplyResponse::LastAppliedLog(_))))
            );
            json!({"first": first, "alive": alive})
        })
    });
    match r {
        Ok(v) => v,
        Err(_) => json!({"first": "panic", "alive": false}),
    }
}

impl Suite for AckChain {
    fn run(&mut self, case: &Value) -> Value {
        if case["mode"].as_str() == Some("bare_apply") {
            return bare_apply();
        }
        let leader = case["mode"].as_str() == Some("leader");
        let slot = if leader { &mut self.leader } else { &mut self.other };
        if slot.is_none() {
            *slot = Some(start(leader));
        }
        let n = slot.as_ref().unwrap();
        let app = n.app.clone();
        let key_s = case["key"].as_str().unwrap_or("k").to_string();
        let val = Arc::new(case["value"].as_str().unwrap_or("v").to_string());
        let op = case["op"].as_str().unwrap_or("").to_string();
        let preload = case["preload"].as_str().map(|v| v.to_string());
        n.runner.block_on(async move {
            let key = ConfigKey::new(&key_s, "G", "");
            // a value this node has APPLIED from the replicated log (state-machine apply of a committed ConfigSet):
            // on the node that does not lead, a lagging follower's stale content
            if let Some(pv) = preload {
                app.config_addr
                    .send(rnacos::config::model::ConfigRaftCmd::ConfigAdd {
                        key: key.build_key(),
                        value: Arc::new(pv),
                        config_type: None,
                        desc: None,
                        history_id: 1,
                        history_table_id: None,
                        op_time: 1_700_000_000_000,
                        op_user: None,
                    })
                    .await
                    .ok();
            }
            let grpc = |t: &'static str, body: String| {
                let app = app.clone();
                async move {
                    use rnacos::grpc::handler::InvokerHandler;
                    use rnacos::grpc::server::RequestServerImpl;
                    use rnacos::grpc::PayloadUtils;
                    let mut invoker = InvokerHandler::new(app.clone());
                    invoker.add_config_handler(&app);
                    let server = RequestServerImpl::new(app.clone(), invoker);
                    let payload = PayloadUtils::build_full_payload(t, body, "127.0.0.1", HashMap::new());
                    let (_s, _c, res) = server.verif_fill_and_handle(payload).await;
                    match res {
                        Ok(hr) => {
                            let rtype = PayloadUtils::get_payload_type(&hr.payload).cloned().unwrap_or_default();
                            let body = hr.payload.body.as_ref().map(|b| String::from_utf8_lossy(&b.value).into_owned()).unwrap_or_default();
                            let bj: Value = serde_json::from_str(&body).unwrap_or(Value::Null);
                            if hr.success && rtype != "ErrorResponse" && bj["resultCode"].as_i64() == Some(200) {
                                json!("ok")
                            } else {
                                json!({"err": format!("{} {}", rtype, bj["message"].as_str().unwrap_or("")).chars().take(80).collect::<String>()})
                            }
                        }
                        Err(e) => json!({"err": e.to_string().chars().take(80).collect::<String>()}),
                    }
                }
            };
            let http = |method: &'static str, form: String| {
                let app = app.clone();
                async move {
                    use actix_web::web::Data;
                    use actix_web::{test, App};
                    use std::ops::Deref;
                    let conf = app.sys_config.deref().clone();
                    let srv = test::init_service(
                        App::new()
                            .app_data(Data::new(app.clone()))
                            .app_data(Data::new(app.config_addr.clone()))
                            .app_data(Data::new(app.naming_addr.clone()))
                            .app_data(Data::new(app.bi_stream_manage.clone()))
                            .configure(rnacos::web_config::app_config(conf)),
                    )
                    .await;
                    let req = if method == "POST" {
                        test::TestRequest::post()
                            .uri("/nacos/v1/cs/configs")
                            .insert_header(("content-type", "application/x-www-form-urlencoded"))
                            .set_payload(form)
                            .to_request()
                    } else {
                        test::TestRequest::delete().uri(&format!("/nacos/v1/cs/configs?{}", form)).to_request()
                    };
                    let resp = test::call_service(&srv, req).await;
                    let st = resp.status().as_u16();
                    let body = String::from_utf8_lossy(&test::read_body(resp).await).into_owned();
                    if st == 200 && body.trim() == "true" {
                        json!("ok")
                    } else {
                        json!({"err": format!("{} {}", st, body).chars().take(80).collect::<String>()})
                    }
                }
            };
            let answer = match op.as_str() {
                "grpc_publish" => {
                    grpc(
                        "ConfigPublishRequest",
                        json!({"dataId": key_s, "group": "G", "tenant": "", "content": val.as_str(), "requestId": "r1", "headers": {}}).to_string(),
                    )
                    .await
                }
                "grpc_remove" => {
                    grpc(
                        "ConfigRemoveRequest",
                        json!({"dataId": key_s, "group": "G", "tenant": "", "requestId": "r1", "headers": {}}).to_string(),
                    )
                    .await
                }
                "http_publish" => http("POST", format!("dataId={}&group=G&content={}", key_s, val)).await,
                "http_delete" => http("DELETE", format!("dataId={}&group=G", key_s)).await,
                "async_add" => match app
                    .config_addr
                    .send(ConfigAsyncCmd::Add { key: key.clone(), value: val.clone(), op_user: None, config_type: None, desc: None })
                    .await
                {
                    Ok(r) => res(r),
                    Err(e) => json!({"mailbox": e.to_string()}),
                },
                "async_del" => match app.config_addr.send(ConfigAsyncCmd::Delete(key.clone())).await {
                    Ok(r) => res(r),
                    Err(e) => json!({"mailbox": e.to_string()}),
                },
                "route_set" => res(handle_route(
                    &app,
                    RouterRequest::ConfigSet {
                        key: key.build_key(),
                        value: val.clone(),
                        op_user: None,
                        config_type: None,
                        desc: None,
                        extend_info: HashMap::new(),
                    },
                )
                .await),
                "route_del" => res(handle_route(&app, RouterRequest::ConfigDel { key: key.build_key(), extend_info: HashMap::new() }).await),
                "cfgroute_set" => res(app.config_route.set_config(SetConfigReq::new(key.clone(), val.clone())).await),
                "cfgroute_del" => res(app.config_route.del_config(DelConfigReq::new(key.clone())).await),
                _ => json!("?"),
            };
            tokio::time::sleep(Duration::from_millis(50)).await;
            let served = match app.config_addr.send(ConfigCmd::GET(key.clone())).await {
                Ok(Ok(ConfigResult::Data { value, .. })) => json!(value.as_str()),
                _ => Value::Null,
            };
            let leader = app.raft.current_leader().await;
            json!({"answer": answer, "served": served, "leader": leader})
        })
    }
}
