//! C06: the leader-side pieces of the answer chain on a REAL in-process node whose raft core is
//! either leading (single node, auto-init) or not a leader (uninitialised): `ConfigAsyncCmd`
//! (Add / Delete), `handle_route` (ConfigSet / ConfigDel) and `ConfigRoute::{set,del}_config`.
//! On a non-leader `raft.client_write` answers ForwardToLeader: none of the pieces may answer Ok.
use super::Suite;
use rnacos::common::appdata::AppShareData;
use rnacos::common::AppSysConfig;
use rnacos::config::core::{ConfigAsyncCmd, ConfigCmd, ConfigKey, ConfigResult};
use rnacos::raft::cluster::handle_route;
use rnacos::raft::cluster::model::{DelConfigReq, RouterRequest, SetConfigReq};
use rnacos::starter::{build_share_data, config_factory};
use serde_json::{json, Value};
use std::collections::HashMap;
use std::sync::Arc;
use std::time::Duration;

struct N {
    runner: actix_rt::SystemRunner,
    app: Arc<AppShareData>,
    _dir: tempfile::TempDir,
}

fn start(leader: bool) -> N {
    let dir = tempfile::tempdir().expect("tempdir");
    std::env::set_var("RNACOS_DATA_DIR", dir.path().join("db").to_str().unwrap());
    std::env::set_var("RNACOS_RAFT_NODE_ID", "1");
    std::env::set_var("RNACOS_RAFT_AUTO_INIT", if leader { "true" } else { "false" });
    std::env::set_var("RNACOS_RAFT_JOIN_ADDR", "");
    std::env::set_var("RNACOS_CONSOLE_ENABLE_CAPTCHA", "false");
    std::env::set_var("RUST_LOG", "error");
    let runner = actix_rt::System::new();
    let app = runner.block_on(async {
        let sys_config = Arc::new(AppSysConfig::init_from_env());
        let factory_data = config_factory(sys_config).await.expect("config_factory");
        let app = build_share_data(factory_data).expect("build_share_data");
        if leader {
            for _ in 0..400 {
                if app.raft.current_leader().await == Some(1) {
                    break;
                }
                tokio::time::sleep(Duration::from_millis(50)).await;
            }
            tokio::time::sleep(Duration::from_millis(600)).await;
        } else {
            tokio::time::sleep(Duration::from_millis(300)).await;
        }
        app
    });
    N { runner, app, _dir: dir }
}

pub struct AckChain {
    leader: Option<N>,
    other: Option<N>,
}

impl AckChain {
    pub fn new() -> Self {
        AckChain { leader: None, other: None }
    }
}

fn res<T>(r: anyhow::Result<T>) -> Value {
    match r {
        Ok(_) => json!("ok"),
        Err(e) => json!({"err": e.to_string().chars().take(80).collect::<String>()}),
    }
}

impl Suite for AckChain {
    fn run(&mut self, case: &Value) -> Value {
        let leader = case["mode"].as_str() == Some("leader");
        let slot = if leader { &mut self.leader } else { &mut self.other };
        if slot.is_none() {
            *slot = Some(start(leader));
        }
        let n = slot.as_ref().unwrap();
        let app = n.app.clone();
        let key_s = case["key"].as_str().unwrap_or("k").to_string();
        let val = Arc::new(case["value"].as_str().unwrap_or("v").to_string());
        let op = case["op"].as_str().unwrap_or("").to_string();
        n.runner.block_on(async move {
            let key = ConfigKey::new(&key_s, "G", "");
            let answer = match op.as_str() {
                "async_add" => match app
                    .config_addr
                    .send(ConfigAsyncCmd::Add { key: key.clone(), value: val.clone(), op_user: None, config_type: None, desc: None })
                    .await
                {
                    Ok(r) => res(r),
                    Err(e) => json!({"mailbox": e.to_string()}),
                },
                "async_del" => match app.config_addr.send(ConfigAsyncCmd::Delete(key.clone())).await {
                    Ok(r) => res(r),
                    Err(e) => json!({"mailbox": e.to_string()}),
                },
                "route_set" => res(handle_route(
                    &app,
                    RouterRequest::ConfigSet {
                        key: key.build_key(),
                        value: val.clone(),
                        op_user: None,
                        config_type: None,
                        desc: None,
                        extend_info: HashMap::new(),
                    },
                )
                .await),
                "route_del" => res(handle_route(&app, RouterRequest::ConfigDel { key: key.build_key(), extend_info: HashMap::new() }).await),
                "cfgroute_set" => res(app.config_route.set_config(SetConfigReq::new(key.clone(), val.clone())).await),
                "cfgroute_del" => res(app.config_route.del_config(DelConfigReq::new(key.clone())).await),
                _ => json!("?"),
            };
            tokio::time::sleep(Duration::from_millis(50)).await;
            let served = match app.config_addr.send(ConfigCmd::GET(key.clone())).await {
                Ok(Ok(ConfigResult::Data { value, .. })) => json!(value.as_str()),
                _ => Value::Null,
            };
            let leader = app.raft.current_leader().await;
            json!({"answer": answer, "served": served, "leader": leader})
        })
    }
}
