//! Raft file store: drives a REAL FileStore + RaftIndexManager + RaftLogManager + RaftSnapshotManager
//! + StateApplyManager actor chain in a temp dir.  One "session" = one actix System on its own thread;
//! ["reopen"] quiesces, ends the session (everything dropped, db_lock released) and starts a new one
//! on the same dir.
//! case: {"limit":L?,"ops":[...]}  (see `run_op`)
use super::logfile::{digest, lcg_bytes, msum, set_limit};
use super::Suite;
use actix::prelude::*;
use async_raft_ext::raft::{Entry, EntryNormal, EntryPayload, MembershipConfig};
use async_raft_ext::storage::HardState;
use async_raft_ext::RaftStorage;
use rnacos::raft::filestore::core::FileStore;
use rnacos::raft::filestore::raftapply::StateApplyManager;
use rnacos::raft::filestore::raftindex::{RaftIndexManager, RaftIndexRequest, RaftIndexResponse};
use rnacos::raft::filestore::raftlog::{RaftLogManager, RaftLogManagerRequest};
use rnacos::raft::filestore::raftsnapshot::RaftSnapshotManager;
use rnacos::raft::filestore::StoreUtils;
use rnacos::raft::store::ClientRequest;
use serde_json::{json, Value};
use std::collections::HashSet;
use std::sync::atomic::Ordering;
use std::sync::{Arc, Mutex};
use std::time::Duration;

pub struct FileStoreSuite {}

impl FileStoreSuite {
    pub fn new() -> Self {
        FileStoreSuite {}
    }
}

const OP_TIMEOUT: Duration = Duration::from_secs(20);
const KEY_CHARS: &[u8] = b"abcdefghijklmnopqrstuvwxyz0123456789";

fn u(v: &Value) -> u64 {
    v.as_u64().unwrap_or(0)
}

/// [index, term, kind, vlen, vseed] at offset `o` of `v`
fn entry_of(v: &Value, o: usize) -> Entry<ClientRequest> {
    let index = u(&v[o]);
    let term = u(&v[o + 1]);
    let kind = v[o + 2].as_str().unwrap_or("b");
    let payload = if kind == "j" {
        let key: String = lcg_bytes(u(&v[o + 3]), u(&v[o + 4]))
            .iter()
            .map(|b| KEY_CHARS[(*b as usize) % 36] as char)
            .collect();
        EntryPayload::Normal(EntryNormal {
            data: ClientRequest::ConfigRemove { key },
        })
    } else {
        EntryPayload::Blank
    };
    Entry {
        term,
        index,
        payload,
    }
}

fn val_of(e: &Entry<ClientRequest>) -> Value {
    match StoreUtils::entry_to_record(e) {
        Ok(r) => digest(&r.value),
        Err(_) => json!("err"),
    }
}

struct Sess {
    store: FileStore,
    index: Addr<RaftIndexManager>,
    logm: Addr<RaftLogManager>,
    base: Arc<String>,
}

fn start_session(base: Arc<String>) -> Sess {
    let index_manager = RaftIndexManager::new(base.clone()).start();
    let log_manager = RaftLogManager::new(base.clone(), Some(index_manager.clone())).start();
    let snapshot_manager =
        RaftSnapshotManager::new(base.clone(), Some(index_manager.clone())).start();
    let apply_manager = StateApplyManager::new().start();
    let store = FileStore::new(
        1,
        index_manager.clone(),
        snapshot_manager,
        log_manager.clone(),
        apply_manager,
    );
    Sess {
        store,
        index: index_manager,
        logm: log_manager,
        base,
    }
}

/// let do_send-ed work reach the log actors / index manager before the next op observes
async fn settle(s: &Sess) {
    let _ = s.store.get_last_log_index().await;
    let _ = s.store.get_log_entries(0, 0).await;
    let _ = s.index.send(RaftIndexRequest::LoadIndexInfo).await;
}

async fn quiesce(s: &Sess) {
    let _ = s.store.get_last_log_index().await;
    let _ = s.store.get_log_entries(0, u64::MAX).await;
    let _ = s.index.send(RaftIndexRequest::LoadIndexInfo).await;
    tokio::time::sleep(Duration::from_millis(50)).await;
    let _ = s.store.get_log_entries(0, u64::MAX).await;
    let _ = s.index.send(RaftIndexRequest::LoadIndexInfo).await;
}

fn pointer_record(
    op: &Value,
) -> anyhow::Result<rnacos::raft::filestore::model::LogRecordDto> {
    let mut members = HashSet::new();
    members.insert(1u64);
    let e: Entry<ClientRequest> = Entry::new_snapshot_pointer(
        u(&op[1]),
        u(&op[2]),
        u(&op[3]).to_string(),
        MembershipConfig {
            members,
            members_after_consensus: None,
        },
    );
    StoreUtils::entry_to_record(&e)
}

async fn run_op(s: &Sess, op: &Value) -> Value {
    let k = op[0].as_str().unwrap_or("");
    match k {
        "a" => {
            let e = entry_of(op, 1);
            let val = val_of(&e);
            match s.store.append_entry_to_log(&e).await {
                Ok(_) => json!({"a":"ok","val":val}),
                Err(_) => json!({"a":"err","val":val}),
            }
        }
        "b" => {
            let es: Vec<Entry<ClientRequest>> = op[1]
                .as_array()
                .map(|a| a.iter().map(|x| entry_of(x, 0)).collect())
                .unwrap_or_default();
            let vals: Vec<Value> = es.iter().map(val_of).collect();
            match s.store.replicate_to_log(&es).await {
                Ok(_) => json!({"b":"ok","val":vals}),
                Err(_) => json!({"b":"err","val":vals}),
            }
        }
        "d" => match s.store.delete_logs_from(u(&op[1]), None).await {
            Ok(_) => json!({"d":"ok"}),
            Err(_) => json!({"d":"err"}),
        },
        "g" => match s.store.get_log_entries(u(&op[1]), u(&op[2])).await {
            Ok(l) => {
                let v: Vec<Value> = l
                    .iter()
                    .map(|e| {
                        let p = serde_json::to_vec(&e.payload).unwrap_or_default();
                        json!([e.index, e.term, p.len() as u64, msum(&p)])
                    })
                    .collect();
                json!({"g": v})
            }
            Err(_) => json!({"g":"err"}),
        },
        "l" => match s.store.get_last_log_index().await {
            Ok(i) => json!({"l":[i.index, i.term]}),
            Err(_) => json!({"l":"err"}),
        },
        "is" => match s.store.get_initial_state().await {
            Ok(i) => json!({"is":[i.last_log_index, i.last_log_term, i.last_applied_log]}),
            Err(_) => json!({"is":"err"}),
        },
        "ptr" | "bptr" => {
            let rec = match pointer_record(op) {
                Ok(r) => r,
                Err(_) => return json!({k:"err"}),
            };
            let val = digest(&rec.value);
            let req = if k == "ptr" {
                RaftLogManagerRequest::InstallSnapshotPointerLog(rec)
            } else {
                RaftLogManagerRequest::BuildSnapshotPointerLog(rec)
            };
            let r = s.logm.send(req).await;
            settle(s).await;
            match r {
                Ok(Ok(_)) => json!({k:"ok","val":val}),
                _ => json!({k:"err","val":val}),
            }
        }
        "so" => {
            let r = s.logm.send(RaftLogManagerRequest::SplitOff(u(&op[1]))).await;
            settle(s).await;
            match r {
                Ok(Ok(_)) => json!({"so":"ok"}),
                _ => json!({"so":"err"}),
            }
        }
        "cat" => match s.index.send(RaftIndexRequest::LoadIndexInfo).await {
            Ok(Ok(RaftIndexResponse::RaftIndexInfo { raft_index, .. })) => {
                let v: Vec<Value> = raft_index
                    .logs
                    .iter()
                    .map(|l| {
                        json!([
                            l.id,
                            l.pre_term,
                            l.start_index,
                            l.record_count,
                            l.split_off_index,
                            l.is_close
                        ])
                    })
                    .collect();
                json!({"cat": v})
            }
            _ => json!({"cat":"err"}),
        },
        "files" => {
            let mut names: Vec<String> = std::fs::read_dir(s.base.as_str())
                .map(|rd| {
                    rd.filter_map(|e| e.ok())
                        .map(|e| e.file_name().to_string_lossy().into_owned())
                        .filter(|n| n.starts_with("log_"))
                        .collect()
                })
                .unwrap_or_default();
            names.sort();
            json!({"files": names})
        }
        _ => json!("?"),
    }
}

/// runs ops[pos..] until a "reopen" (inclusive) or the end; returns the next position
async fn session(
    base: Arc<String>,
    ops: Arc<Vec<Value>>,
    mut pos: usize,
    first: bool,
    out: Arc<Mutex<Vec<Value>>>,
) -> usize {
    let s = start_session(base);
    // every session (not only the first): an index file of <= 20 bytes is re-initialised on open
    // (known defect of another property), which would also drop the hard state saved earlier
    let _ = first;
    {
        let hs = HardState {
            current_term: 1,
            voted_for: Some(1),
        };
        let _ = tokio::time::timeout(OP_TIMEOUT, s.store.save_hard_state(&hs)).await;
    }
    while pos < ops.len() {
        let op = &ops[pos];
        pos += 1;
        let k = op[0].as_str().unwrap_or("?").to_string();
        if k == "reopen" {
            let _ = tokio::time::timeout(OP_TIMEOUT, quiesce(&s)).await;
            out.lock().unwrap().push(json!({"reopen":"ok"}));
            return pos;
        }
        let v = match tokio::time::timeout(OP_TIMEOUT, run_op(&s, op)).await {
            Ok(v) => v,
            Err(_) => json!({k:"timeout"}),
        };
        out.lock().unwrap().push(v);
    }
    // end of the case: the temp dir is thrown away, no quiesce needed
    pos
}

impl Suite for FileStoreSuite {
    fn run(&mut self, case: &Value) -> Value {
        set_limit(case);
        let dir = match tempfile::tempdir() {
            Ok(d) => d,
            Err(_) => return json!({"r":"tmperr"}),
        };
        let base = Arc::new(dir.path().to_string_lossy().into_owned());
        let ops: Arc<Vec<Value>> = Arc::new(case["ops"].as_array().cloned().unwrap_or_default());
        let out: Arc<Mutex<Vec<Value>>> = Arc::new(Mutex::new(vec![]));
        let mut pos = 0usize;
        let mut first = true;
        let mut panicked = false;
        loop {
            let (b, o, ou) = (base.clone(), ops.clone(), out.clone());
            let p = pos;
            let f = first;
            let h = std::thread::spawn(move || {
                let sys = actix::System::new();
                let next = sys.block_on(async move {
                    let n = session(b, o, p, f, ou).await;
                    actix::System::current().stop();
                    n
                });
                drop(sys);
                next
            });
            match h.join() {
                Ok(n) => pos = n,
                Err(_) => {
                    panicked = true;
                    break;
                }
            }
            first = false;
            if pos >= ops.len() {
                break;
            }
        }
        let outv = match out.lock() {
            Ok(v) => v.clone(),
            Err(p) => p.into_inner().clone(),
        };
        rnacos::verif_hooks::LOG_DATA_AREA_INDEX.store(0, Ordering::SeqCst);
        drop(dir);
        if panicked {
            json!({"r":"panic","out":outv})
        } else {
            json!({"r":"ok","out":outv})
        }
    }
}
