//! Shared helpers for the state-machine suites: a "mini node" made of the REAL r-nacos actors wired
//! through a `bean_factory::BeanFactory` the way `starter::config_factory` does (minus raft / network),
//! request parsing, quiescence, and a canonical dump of the node state.
//!
//! Canonicalisation rules (nothing else is dropped):
//!  * JSON objects are key-sorted, floats are rendered as strings `"f:<display>"` (instance weight,
//!    protect_threshold) so that no float comparison happens downstream;
//!  * every list that comes out of a HashMap (snapshot records, table names, node_addrs, naming
//!    instances, metadata maps ...) is sorted;
//!  * naming `Instance.lastModifiedMillis` / `Instance.registerTime` are DROPPED: `Instance::init()` and
//!    `Instance::default()` take them from the wall clock (`now_millis_i64()`), not from the request;
//!  * DirectCacheManager TTL answers (`expire - now_second`) are turned back into the absolute `expire`
//!    (`ttl + now`, sampled inside one wall-clock second); `-2` (absent / permanent / long expired) -> null;
//!  * cache values written by `CacheManagerRaftReq::Limit` are "rate,consumed,last_refill_time" where the
//!    third field is `now_millis()`: for keys targeted by a Limit request the third field is masked `*`;
//!  * snapshot records whose VALUE embeds a HashMap-ordered encoding are decoded with the real
//!    quick-protobuf readers and re-emitted as canonical JSON (`json` instead of `value`):
//!    T_NAMING_INSTANCE (metadata map), T_DIRECT_CACHE (Map/UserSession/ApiTokenSession values are
//!    serde_json of a HashMap), T_MCP_SERVER (route_rule_json has a HashMap of headers), T_MCP_TOOL_SPEC
//!    (parameters_json has a HashMap of properties).  All other trees are raw hex.
use actix::prelude::*;
use bean_factory::{BeanDefinition, BeanFactory};
use quick_protobuf::BytesReader;
use serde_json::{json, Map, Value};
use std::collections::{BTreeMap, BTreeSet};
use std::path::Path;
use std::sync::Arc;

use rnacos::cache::actor_model::{
    CacheManagerLocalReq, CacheManagerRaftReq, CacheManagerRaftResult, CacheSetParam,
};
use rnacos::cache::adaptation::AdaptationUtils;
use rnacos::cache::core::DirectCacheManager;
use rnacos::cache::model::{CacheKey, CacheType, CacheValue};
use rnacos::common::byte_utils::bin_to_id;
use rnacos::common::constant::{
    CACHE_TREE_NAME, DIRECT_CACHE_TABLE_NAME, MCP_SERVER_TABLE_NAME, MCP_TOOL_SPEC_TABLE_NAME,
    NAMING_INSTANCE_TABLE, SEQUENCE_TREE_NAME,
};
use rnacos::common::pb::data_object::{
    DirectCacheItemDo, InstanceDo, McpServerDo, McpServerValueDo, McpToolSpecDo,
};
use rnacos::config::config_index::ConfigQueryParam;
use rnacos::config::core::{ConfigActor, ConfigCmd, ConfigKey, ConfigResult};
use rnacos::config::dal::ConfigHistoryParam;
use rnacos::config::model::{ConfigHistoryItemDO, ConfigValueDO};
use rnacos::mcp::core::McpManager;
use rnacos::mcp::model::actor_model::{
    McpManagerRaftReq, McpManagerReq, McpManagerResult, McpToolSpecQueryParam,
};
use rnacos::mcp::model::mcp::{McpQueryParam, McpServer, McpServerParam, McpServerValue};
use rnacos::mcp::model::tools::{
    ConvertType, JsonSchema, McpSimpleTool, ToolFunctionValue, ToolKey, ToolRouteRule, ToolSpec,
    ToolSpecParam, ToolSpecVersion,
};
use rnacos::namespace::model::{
    NamespaceParam, NamespaceQueryReq, NamespaceQueryResult, NamespaceRaftReq,
};
use rnacos::namespace::NamespaceActor;
use rnacos::naming::core::{NamingActor, NamingCmd, NamingResult};
use rnacos::naming::model::actor_model::{InstanceRegisterParam, NamingRaftReq};
use rnacos::naming::model::{Instance, InstanceKey, ServiceKey};
use rnacos::raft::cache::{CacheLimiterReq, CacheManager, CacheManagerReq};
use rnacos::raft::db::table::{
    TableManager, TableManagerInnerReq, TableManagerQueryReq, TableManagerReq, TableManagerResult,
};
use rnacos::raft::filestore::model::{SnapshotHeaderDto, SnapshotRecordDto};
use rnacos::raft::filestore::raftapply::{
    RaftApplyDataRequest, StateApplyManager, StateApplyRequest, StateApplyResponse,
};
use rnacos::raft::filestore::raftdata::RaftDataHandler;
use rnacos::raft::filestore::raftindex::{RaftIndexManager, RaftIndexRequest, RaftIndexResponse};
use rnacos::raft::filestore::raftlog::RaftLogManager;
use rnacos::raft::filestore::raftsnapshot::{
    RaftSnapshotManager, SnapshotReader, SnapshotWriterActor, SnapshotWriterRequest,
};
use rnacos::raft::store::ClientRequest;
use rnacos::sequence::core::SequenceDbManager;
use rnacos::sequence::model::SequenceRaftReq;

const BIG: usize = 1 << 40;

pub fn hex(b: &[u8]) -> String {
    let mut s = String::with_capacity(b.len() * 2);
    for x in b {
        s.push_str(&format!("{:02x}", x));
    }
    s
}

/// key-sorted objects, floats -> "f:<display>"
pub fn canon(v: Value) -> Value {
    match v {
        Value::Object(m) => {
            let sorted: BTreeMap<String, Value> =
                m.into_iter().map(|(k, v)| (k, canon(v))).collect();
            let mut out = Map::new();
            for (k, v) in sorted {
                out.insert(k, v);
            }
            Value::Object(out)
        }
        Value::Array(a) => Value::Array(a.into_iter().map(canon).collect()),
        Value::Number(n) => {
            if n.is_i64() || n.is_u64() {
                Value::Number(n)
            } else {
                Value::String(format!("f:{}", n.as_f64().unwrap_or(0.0)))
            }
        }
        o => o,
    }
}

pub fn to_canon<T: serde::Serialize>(t: &T) -> Value {
    canon(serde_json::to_value(t).unwrap_or(Value::Null))
}

fn sort_values(mut l: Vec<Value>) -> Vec<Value> {
    l.sort_by_key(|a| a.to_string());
    l
}

// ------------------------------------------------------------------------------------------------
// mini node
// ------------------------------------------------------------------------------------------------

pub struct MiniNode {
    /// owned temp data dir (mini node) or None (full node over an external data dir)
    pub dir: Option<tempfile::TempDir>,
    /// where the state-dump snapshot file is written (never the data dir of a full node)
    pub scratch: std::path::PathBuf,
    pub config: Addr<ConfigActor>,
    pub table: Addr<TableManager>,
    pub namespace: Addr<NamespaceActor>,
    pub sequence_db: Addr<SequenceDbManager>,
    pub mcp: Addr<McpManager>,
    pub naming: Addr<NamingActor>,
    pub direct_cache: Addr<DirectCacheManager>,
    pub cache: Addr<CacheManager>,
    pub index: Addr<RaftIndexManager>,
    #[allow(dead_code)]
    pub log: Addr<RaftLogManager>,
    #[allow(dead_code)]
    pub snapshot: Addr<RaftSnapshotManager>,
    pub apply: Addr<StateApplyManager>,
    pub handler: Arc<RaftDataHandler>,
}

impl MiniNode {
    /// Must be called inside a running actix System.  Mirrors `starter::config_factory` for the beans
    /// that take part in applying the raft log; no NacosRaft bean is registered (raft stays None).
    pub async fn build(tmp_base: &Path) -> anyhow::Result<MiniNode> {
        let dir = tempfile::Builder::new()
            .prefix("rnv-sm-")
            .tempdir_in(tmp_base)?;
        let base_path = Arc::new(dir.path().to_string_lossy().into_owned());
        let factory = BeanFactory::new();

        let index = RaftIndexManager::new(base_path.clone()).start();
        let config = ConfigActor::new().start();
        factory.register(BeanDefinition::actor_with_inject_from_obj::<ConfigActor>(
            config.clone(),
        ));
        let naming = NamingActor::new().start();
        factory.register(BeanDefinition::actor_with_inject_from_obj(naming.clone()));

        let log = RaftLogManager::new(base_path.clone(), Some(index.clone())).start();
        let snapshot = RaftSnapshotManager::new(base_path.clone(), Some(index.clone())).start();
        let apply = StateApplyManager::new().start();
        factory.register(BeanDefinition::actor_with_inject_from_obj(log.clone()));
        factory.register(BeanDefinition::actor_with_inject_from_obj(index.clone()));
        factory.register(BeanDefinition::actor_with_inject_from_obj(snapshot.clone()));
        factory.register(BeanDefinition::actor_with_inject_from_obj(apply.clone()));

        let table = TableManager::new().start();
        factory.register(BeanDefinition::actor_with_inject_from_obj(table.clone()));
        let cache = CacheManager::new().start();
        factory.register(BeanDefinition::actor_with_inject_from_obj(cache.clone()));
        let namespace = NamespaceActor::verif_new(1).start();
        factory.register(BeanDefinition::actor_with_inject_from_obj(
            namespace.clone(),
        ));
        let sequence_db = SequenceDbManager::new().start();
        factory.register(BeanDefinition::actor_from_obj(sequence_db.clone()));
        let mcp = McpManager::new().start();
        factory.register(BeanDefinition::actor_with_inject_from_obj(mcp.clone()));
        let direct_cache = DirectCacheManager::new().start();
        factory.register(BeanDefinition::actor_with_inject_from_obj(
            direct_cache.clone(),
        ));

        let handler = Arc::new(RaftDataHandler {
            sequence_db: sequence_db.clone(),
            config: config.clone(),
            table: table.clone(),
            namespace: namespace.clone(),
            mcp_manager: mcp.clone(),
            naming_actor: naming.clone(),
            direct_cache_manager: direct_cache.clone(),
        });
        factory.register(BeanDefinition::from_obj(handler.clone()));
        let _factory_data = factory.init().await;

        let node = MiniNode {
            scratch: dir.path().to_path_buf(),
            dir: Some(dir),
            config,
            table,
            namespace,
            sequence_db,
            mcp,
            naming,
            direct_cache,
            cache,
            index,
            log,
            snapshot,
            apply,
            handler,
        };
        // the Inject events are in every mailbox before these queries; StateApplyManager's start-up
        // chain (load_index -> load_snapshot -> load_log) runs under ctx.wait, so its answer comes after.
        node.settle().await?;
        Ok(node)
    }

    /// The actors of a full node built by the real `starter::config_factory`.
    pub fn from_factory(
        fd: &bean_factory::FactoryData,
        scratch: std::path::PathBuf,
    ) -> anyhow::Result<MiniNode> {
        fn need<T>(o: Option<T>, what: &str) -> anyhow::Result<T> {
            o.ok_or_else(|| anyhow::anyhow!("bean missing: {}", what))
        }
        Ok(MiniNode {
            dir: None,
            scratch,
            config: need(fd.get_actor(), "ConfigActor")?,
            table: need(fd.get_actor(), "TableManager")?,
            namespace: need(fd.get_actor(), "NamespaceActor")?,
            sequence_db: need(fd.get_actor(), "SequenceDbManager")?,
            mcp: need(fd.get_actor(), "McpManager")?,
            naming: need(fd.get_actor(), "NamingActor")?,
            direct_cache: need(fd.get_actor(), "DirectCacheManager")?,
            cache: need(fd.get_actor(), "CacheManager")?,
            index: need(fd.get_actor(), "RaftIndexManager")?,
            log: need(fd.get_actor(), "RaftLogManager")?,
            snapshot: need(fd.get_actor(), "RaftSnapshotManager")?,
            apply: need(fd.get_actor(), "StateApplyManager")?,
            handler: need(fd.get_bean(), "RaftDataHandler")?,
        })
    }

    /// Awaited read-only round trip through every actor, three times: mailboxes are FIFO, and the longest
    /// forwarding chain is TableManager -> CacheManager -> TableManager(Remove) -> DirectCacheManager.
    /// (SequenceDbManager has no read-only message and nobody forwards to it.)
    pub async fn settle(&self) -> anyhow::Result<()> {
        let ck = CacheKey::new(CacheType::String, Arc::new(String::new()));
        fn mb<T>(
            who: &'static str,
            r: Result<anyhow::Result<T>, MailboxError>,
        ) -> anyhow::Result<T> {
            match r {
                Ok(Ok(v)) => Ok(v),
                Ok(Err(e)) => Err(anyhow::anyhow!("settle {}: {}", who, e)),
                Err(e) => Err(anyhow::anyhow!("settle {}: mailbox {}", who, e)),
            }
        }
        for _ in 0..3 {
            mb(
                "index",
                self.index.send(RaftIndexRequest::LoadIndexInfo).await,
            )?;
            mb(
                "config",
                self.config
                    .send(ConfigCmd::GET(ConfigKey::new("", "", "")))
                    .await,
            )?;
            mb(
                "naming",
                self.naming
                    .send(NamingCmd::QueryAllInstanceList(ServiceKey::new("", "", "")))
                    .await,
            )?;
            mb("mcp", self.mcp.send(McpManagerReq::GetServer(0)).await)?;
            mb(
                "table",
                self.table.send(TableManagerQueryReq::QueryTableNames).await,
            )?;
            mb(
                "cache",
                self.cache.send(CacheManagerReq::Get(ck.clone())).await,
            )?;
            mb(
                "table",
                self.table.send(TableManagerQueryReq::QueryTableNames).await,
            )?;
            mb(
                "direct_cache",
                self.direct_cache
                    .send(CacheManagerLocalReq::Exists(ck.clone()))
                    .await,
            )?;
            mb(
                "namespace",
                self.namespace.send(NamespaceQueryReq::List).await,
            )?;
            mb(
                "apply",
                self.apply.send(StateApplyRequest::GetLastAppliedLog).await,
            )?;
            mb(
                "index",
                self.index.send(RaftIndexRequest::LoadIndexInfo).await,
            )?;
        }
        Ok(())
    }
}

// ------------------------------------------------------------------------------------------------
// requests
// ------------------------------------------------------------------------------------------------

/// serde_json encoding of a ClientRequest, or the `$FullValue` convenience form.
pub fn parse_req(v: &Value) -> anyhow::Result<ClientRequest> {
    if let Some(fv) = v.get("$FullValue") {
        let key = fv
            .get("key")
            .and_then(|k| k.as_str())
            .ok_or_else(|| anyhow::anyhow!("$FullValue.key must be a string"))?
            .as_bytes()
            .to_vec();
        let last_seq_id = fv.get("last_seq_id").and_then(|x| x.as_u64());
        let mut obj = fv.clone();
        if let Some(m) = obj.as_object_mut() {
            m.entry("histories").or_insert_with(|| json!([]));
            m.entry("content").or_insert(Value::Null);
            m.entry("config_type").or_insert(Value::Null);
            m.entry("desc").or_insert(Value::Null);
        }
        let vdo: ConfigValueDO = serde_json::from_value(obj)?;
        return Ok(ClientRequest::ConfigFullValue {
            key,
            value: vdo.to_bytes()?,
            last_seq_id,
        });
    }
    Ok(serde_json::from_value(v.clone())?)
}

fn split_config_key(key: &str) -> (String, String, String) {
    // same rule as `impl From<&str> for ConfigKey`
    let mut it = key.split('\x02');
    let d = it.next().unwrap_or("").to_string();
    let g = it.next().unwrap_or("").to_string();
    let t = it.next().unwrap_or("").to_string();
    (d, g, t)
}

/// Things named by the requests of a case; the dump queries exactly these (plus all the global lists).
#[derive(Default, Debug)]
pub struct Occur {
    pub config_keys: BTreeSet<(String, String, String)>,
    pub services: BTreeSet<(String, String, String)>,
    pub cache_keys: BTreeSet<(u8, String)>,
    pub limit_keys: BTreeSet<(u8, String)>,
    pub mcp_unique_keys: BTreeSet<String>,
}

fn ck_tuple(k: &CacheKey) -> (u8, String) {
    (k.cache_type.get_type_data(), k.key.as_ref().clone())
}

fn limit_key(l: &CacheLimiterReq) -> Arc<String> {
    match l {
        CacheLimiterReq::Second { key, .. }
        | CacheLimiterReq::Minutes { key, .. }
        | CacheLimiterReq::Hour { key, .. }
        | CacheLimiterReq::Day { key, .. }
        | CacheLimiterReq::OtherMills { key, .. } => key.clone(),
    }
}

impl Occur {
    pub fn collect(reqs: &[ClientRequest]) -> Occur {
        let mut o = Occur::default();
        for r in reqs {
            match r {
                ClientRequest::ConfigSet { key, .. } | ClientRequest::ConfigRemove { key } => {
                    o.config_keys.insert(split_config_key(key));
                }
                ClientRequest::ConfigFullValue { key, .. } => {
                    o.config_keys
                        .insert(split_config_key(&String::from_utf8_lossy(key)));
                }
                ClientRequest::TableManagerReq(t) => match t {
                    TableManagerReq::Set {
                        table_name, key, ..
                    }
                    | TableManagerReq::Remove { table_name, key } => {
                        if table_name.as_str() == CACHE_TREE_NAME.as_str() {
                            if let Ok(k) = AdaptationUtils::build_key_from_old(key) {
                                o.cache_keys.insert(ck_tuple(&k));
                            }
                        }
                    }
                    _ => {}
                },
                ClientRequest::NamingReq { req } => match req {
                    NamingRaftReq::RegisterInstance { param }
                    | NamingRaftReq::UpdateInstance { param } => {
                        o.services.insert((
                            param.namespace_id.as_ref().clone(),
                            param.group_name.as_ref().clone(),
                            param.service_name.as_ref().clone(),
                        ));
                    }
                    NamingRaftReq::RemoveInstance(k) => {
                        o.services.insert((
                            k.namespace_id.as_ref().clone(),
                            k.group_name.as_ref().clone(),
                            k.service_name.as_ref().clone(),
                        ));
                    }
                },
                ClientRequest::CacheReq { req } => match req {
                    CacheManagerRaftReq::Set(p) | CacheManagerRaftReq::GetSet(p) => {
                        o.cache_keys.insert(ck_tuple(&p.key));
                    }
                    CacheManagerRaftReq::Remove(k)
                    | CacheManagerRaftReq::Get(k)
                    | CacheManagerRaftReq::Exists(k)
                    | CacheManagerRaftReq::Ttl(k)
                    | CacheManagerRaftReq::Expire(k, _)
                    | CacheManagerRaftReq::Incr(k, _)
                    | CacheManagerRaftReq::Decr(k, _) => {
                        o.cache_keys.insert(ck_tuple(k));
                    }
                    CacheManagerRaftReq::Limit(l) => {
                        let k = (
                            CacheType::String.get_type_data(),
                            limit_key(l).as_ref().clone(),
                        );
                        o.cache_keys.insert(k.clone());
                        o.limit_keys.insert(k);
                    }
                },
                ClientRequest::McpReq { req } => match req {
                    McpManagerRaftReq::AddServer(p) | McpManagerRaftReq::UpdateServer(p) => {
                        if let Some(k) = &p.unique_key {
                            o.mcp_unique_keys.insert(k.as_ref().clone());
                        }
                    }
                    McpManagerRaftReq::SetServer(s) => {
                        o.mcp_unique_keys.insert(s.unique_key.as_ref().clone());
                    }
                    _ => {}
                },
                _ => {}
            }
        }
        o
    }
}

// ------------------------------------------------------------------------------------------------
// dump
// ------------------------------------------------------------------------------------------------

fn mask_limiter(s: &str) -> Option<String> {
    let parts: Vec<&str> = s.split(',').collect();
    if parts.len() == 3 && parts.iter().all(|p| p.parse::<i64>().is_ok()) {
        Some(format!("{},{},*", parts[0], parts[1]))
    } else {
        None
    }
}

fn parse_json_or_string(s: &str) -> Value {
    match serde_json::from_str::<Value>(s) {
        Ok(v) => canon(v),
        Err(_) => json!({ "$raw": s }),
    }
}

fn server_value_do_json(v: &McpServerValueDo) -> Value {
    let tools: Vec<Value> = v
        .tools
        .iter()
        .map(|t| {
            json!({
                "tool_name": t.tool_name.as_ref(),
                "namespace": t.namespace.as_ref(),
                "group": t.group.as_ref(),
                "version": t.version,
                "route_rule": parse_json_or_string(t.route_rule_json.as_ref()),
            })
        })
        .collect();
    json!({
        "id": v.id,
        "description": v.description.as_ref(),
        "tools": tools,
        "op_user": v.op_user.as_ref(),
        "update_time": v.update_time,
    })
}

/// value of one snapshot record -> ("value", hex) for raw trees or ("json", canonical) for the decoded ones
fn snapshot_value(tree: &str, value: &[u8], occur: &Occur) -> (&'static str, Value) {
    let raw = || ("value", Value::String(hex(value)));
    if tree == NAMING_INSTANCE_TABLE.as_str() {
        let mut r = BytesReader::from_bytes(value);
        match r.read_message::<InstanceDo>(value) {
            Ok(d) => {
                let md: BTreeMap<String, String> = d
                    .metadata
                    .iter()
                    .map(|(k, v)| (k.to_string(), v.to_string()))
                    .collect();
                (
                    "json",
                    canon(json!({
                        "ip": d.ip.as_ref(), "port": d.port, "weight": d.weight as f64,
                        "enabled": d.enabled, "healthy": d.healthy, "ephemeral": d.ephemeral,
                        "metadata": md, "namespace_id": d.namespace_id.as_ref(),
                        "group_name": d.group_name.as_ref(), "service_name": d.service_name.as_ref(),
                        "cluster_name": d.cluster_name.as_ref(), "app_name": d.app_name.as_ref(),
                    })),
                )
            }
            Err(_) => raw(),
        }
    } else if tree == DIRECT_CACHE_TABLE_NAME.as_str() {
        let mut r = BytesReader::from_bytes(value);
        match r.read_message::<DirectCacheItemDo>(value) {
            Ok(d) => {
                let data = if d.cache_type == 1 {
                    let is_limit = occur.limit_keys.contains(&(1u8, d.key.to_string()));
                    match (is_limit, std::str::from_utf8(d.data.as_ref())) {
                        (true, Ok(s)) if mask_limiter(s).is_some() => {
                            json!({ "limiter": mask_limiter(s) })
                        }
                        _ => json!({ "hex": hex(d.data.as_ref()) }),
                    }
                } else {
                    match serde_json::from_slice::<Value>(d.data.as_ref()) {
                        Ok(v) => json!({ "json": canon(v) }),
                        Err(_) => json!({ "hex": hex(d.data.as_ref()) }),
                    }
                };
                (
                    "json",
                    canon(json!({
                        "cache_type": d.cache_type, "key": d.key.as_ref(),
                        "timeout": d.timeout, "data": data,
                    })),
                )
            }
            Err(_) => raw(),
        }
    } else if tree == MCP_SERVER_TABLE_NAME.as_str() {
        let mut r = BytesReader::from_bytes(value);
        match r.read_message::<McpServerDo>(value) {
            Ok(d) => {
                let auth: Vec<&str> = d.auth_keys.iter().map(|a| a.as_ref()).collect();
                let hist: Vec<Value> = d.histories.iter().map(server_value_do_json).collect();
                (
                    "json",
                    canon(json!({
                        "id": d.id, "unique_key": d.unique_key.as_ref(),
                        "namespace": d.namespace.as_ref(), "name": d.name.as_ref(),
                        "description": d.description.as_ref(), "auth_keys": auth,
                        "create_time": d.create_time, "create_user": d.create_user.as_ref(),
                        "current_value": d.current_value.as_ref().map(server_value_do_json),
                        "release_value": d.release_value.as_ref().map(server_value_do_json),
                        "histories": hist,
                    })),
                )
            }
            Err(_) => raw(),
        }
    } else if tree == MCP_TOOL_SPEC_TABLE_NAME.as_str() {
        let mut r = BytesReader::from_bytes(value);
        match r.read_message::<McpToolSpecDo>(value) {
            Ok(d) => {
                let versions: Vec<Value> = d
                    .versions
                    .iter()
                    .map(|v| {
                        json!({
                            "version": v.version,
                            "parameters": parse_json_or_string(v.parameters_json.as_ref()),
                            "op_user": v.op_user.as_ref(),
                            "update_time": v.update_time,
                        })
                    })
                    .collect();
                (
                    "json",
                    canon(json!({
                        "namespace": d.namespace.as_ref(), "group": d.group.as_ref(),
                        "tool_name": d.tool_name.as_ref(), "current_version": d.current_version,
                        "create_time": d.create_time, "create_user": d.create_user.as_ref(),
                        "versions": versions,
                    })),
                )
            }
            Err(_) => raw(),
        }
    } else {
        raw()
    }
}

/// The generic state dump: the REAL `RaftDataHandler::build_snapshot` into a real SnapshotWriterActor,
/// read back with the real SnapshotReader; records sorted by (tree, key, value).
/// which part of the node a BuildSnapshot request goes to
#[derive(Clone, Copy, Debug, PartialEq, Eq)]
pub enum Part {
    All,
    Sequence,
    Config,
    Table,
    Namespace,
    Mcp,
    Naming,
    Cache,
}

pub const PARTS: [(Part, &str); 7] = [
    (Part::Sequence, "sequence"),
    (Part::Config, "config"),
    (Part::Table, "table"),
    (Part::Namespace, "namespace"),
    (Part::Mcp, "mcp"),
    (Part::Naming, "naming"),
    (Part::Cache, "cache"),
];

/// NOT the all-default header: it encodes to a zero-length message and `MessageBufReader::is_empty`
/// (first byte == 0) makes `SnapshotReader::init` fail with "read snapshot head error".
fn dump_header() -> SnapshotHeaderDto {
    SnapshotHeaderDto {
        last_index: 1,
        last_term: 1,
        member: vec![],
        member_after_consensus: vec![],
        node_addrs: Default::default(),
    }
}

/// read a snapshot file back with the real SnapshotReader -> (sorted canonical records, decoded sequences)
pub async fn read_snapshot_canon(path: &str, occur: &Occur) -> anyhow::Result<(Value, Value)> {
    let mut reader = SnapshotReader::init(path).await?;
    let mut recs: Vec<(String, String, String, Value)> = vec![];
    let mut seqs: Vec<(String, u64)> = vec![];
    while let Some(rec) = reader.read_record().await? {
        let tree = rec.tree.as_ref().clone();
        if tree == SEQUENCE_TREE_NAME.as_str() && rec.value.len() >= 8 {
            seqs.push((
                String::from_utf8_lossy(&rec.key).to_string(),
                bin_to_id(&rec.value),
            ));
        }
        let (field, val) = snapshot_value(&tree, &rec.value, occur);
        let mut m = Map::new();
        m.insert("tree".into(), Value::String(tree.clone()));
        m.insert("key".into(), Value::String(hex(&rec.key)));
        m.insert(field.into(), val.clone());
        if rec.op_type != 0 {
            m.insert("op_type".into(), json!(rec.op_type));
        }
        recs.push((tree, hex(&rec.key), val.to_string(), Value::Object(m)));
    }
    recs.sort_by(|a, b| (&a.0, &a.1, &a.2).cmp(&(&b.0, &b.1, &b.2)));
    seqs.sort();
    let seqs: Vec<Value> = seqs.into_iter().map(|(k, v)| json!([k, v])).collect();
    Ok((
        Value::Array(recs.into_iter().map(|r| r.3).collect()),
        Value::Array(seqs),
    ))
}

/// The generic state dump: the REAL `RaftDataHandler::build_snapshot` (Part::All) or the BuildSnapshot
/// message of one actor, into a real SnapshotWriterActor, read back with the real SnapshotReader; records
/// sorted by (tree, key, value).
async fn build_part_file(node: &MiniNode, part: Part) -> anyhow::Result<Arc<String>> {
    static SEQ: std::sync::atomic::AtomicU64 = std::sync::atomic::AtomicU64::new(0);
    let n = SEQ.fetch_add(1, std::sync::atomic::Ordering::SeqCst);
    let path = Arc::new(
        node.scratch
            .join(format!(
                "verif_state_dump_{}_{}.snapshot",
                std::process::id(),
                n
            ))
            .to_string_lossy()
            .into_owned(),
    );
    let writer = SnapshotWriterActor::new(path.clone(), dump_header()).start();
    let w = writer.clone();
    match part {
        Part::All => node.handler.build_snapshot(w).await?,
        Part::Sequence => {
            node.sequence_db
                .send(RaftApplyDataRequest::BuildSnapshot(w))
                .await??;
        }
        Part::Config => {
            node.config.send(ConfigCmd::BuildSnapshot(w)).await??;
        }
        Part::Table => {
            node.table
                .send(TableManagerInnerReq::BuildSnapshot(w))
                .await??;
        }
        Part::Namespace => {
            node.namespace
                .send(RaftApplyDataRequest::BuildSnapshot(w))
                .await??;
        }
        Part::Mcp => {
            node.mcp
                .send(RaftApplyDataRequest::BuildSnapshot(w))
                .await??;
        }
        Part::Naming => {
            node.naming
                .send(RaftApplyDataRequest::BuildSnapshot(w))
                .await??;
        }
        Part::Cache => {
            node.direct_cache
                .send(RaftApplyDataRequest::BuildSnapshot(w))
                .await??;
        }
    }
    writer.send(SnapshotWriterRequest::Flush).await??;
    // the Flush handler answers before its `ctx.wait` future has run; a second Flush is only handled
    // once the first one has completed
    writer.send(SnapshotWriterRequest::Flush).await??;
    Ok(path)
}

pub async fn snapshot_part(
    node: &MiniNode,
    occur: &Occur,
    part: Part,
) -> anyhow::Result<(Value, Value)> {
    let path = build_part_file(node, part).await?;
    let r = read_snapshot_canon(path.as_str(), occur).await;
    let _ = std::fs::remove_file(path.as_str());
    r
}

/// same, but the records as they are: (tree, key, value) in file order
pub async fn snapshot_part_raw(
    node: &MiniNode,
    part: Part,
) -> anyhow::Result<Vec<(String, Vec<u8>, Vec<u8>)>> {
    let path = build_part_file(node, part).await?;
    let mut out = vec![];
    let r: anyhow::Result<()> = async {
        let mut reader = SnapshotReader::init(path.as_str()).await?;
        while let Some(rec) = reader.read_record().await? {
            out.push((rec.tree.as_ref().clone(), rec.key, rec.value));
        }
        Ok(())
    }
    .await;
    let _ = std::fs::remove_file(path.as_str());
    r?;
    Ok(out)
}

pub async fn snapshot_dump(node: &MiniNode, occur: &Occur) -> anyhow::Result<(Value, Value)> {
    snapshot_part(node, occur, Part::All).await
}

/// one frame exactly as `SnapshotWriter::write_record` writes it
pub fn record_frame(tree: &str, key: &[u8], value: &[u8]) -> Vec<u8> {
    let rec = SnapshotRecordDto {
        tree: Arc::new(tree.to_string()),
        key: key.to_vec(),
        value: value.to_vec(),
        op_type: 0,
    };
    let mut buf = Vec::new();
    let mut writer = quick_protobuf::Writer::new(&mut buf);
    writer.write_message(&rec.to_record_do()).unwrap();
    buf
}

/// the header frame exactly as `SnapshotWriter::init` writes it
pub fn header_frame(h: &SnapshotHeaderDto) -> Vec<u8> {
    let mut buf = Vec::new();
    let mut writer = quick_protobuf::Writer::new(&mut buf);
    writer.write_message(&h.to_record_do()).unwrap();
    buf
}

/// first difference of two JSON values: {"path","a","b"} (values cut to 400 chars) or None
pub fn first_diff(a: &Value, b: &Value, path: &str) -> Option<Value> {
    fn cut(v: &Value) -> Value {
        let s = v.to_string();
        if s.len() > 400 {
            Value::String(format!("{}...", s.chars().take(400).collect::<String>()))
        } else {
            v.clone()
        }
    }
    match (a, b) {
        (Value::Object(x), Value::Object(y)) => {
            let keys: BTreeSet<&String> = x.keys().chain(y.keys()).collect();
            for k in keys {
                let p = format!("{}/{}", path, k);
                match (x.get(k), y.get(k)) {
                    (Some(u), Some(v)) => {
                        if let Some(d) = first_diff(u, v, &p) {
                            return Some(d);
                        }
                    }
                    (u, v) => {
                        return Some(json!({"path": p, "a": u.map(cut), "b": v.map(cut)}));
                    }
                }
            }
            None
        }
        (Value::Array(x), Value::Array(y)) => {
            for i in 0..x.len().max(y.len()) {
                let p = format!("{}/{}", path, i);
                match (x.get(i), y.get(i)) {
                    (Some(u), Some(v)) => {
                        if let Some(d) = first_diff(u, v, &p) {
                            return Some(d);
                        }
                    }
                    (u, v) => {
                        return Some(json!({"path": p, "a": u.map(cut), "b": v.map(cut),
                                           "len_a": x.len(), "len_b": y.len()}));
                    }
                }
            }
            None
        }
        _ => {
            if a == b {
                None
            } else {
                Some(json!({"path": path, "a": cut(a), "b": cut(b)}))
            }
        }
    }
}

fn instance_json(i: &Instance) -> Value {
    let mut v = serde_json::to_value(i).unwrap_or(Value::Null);
    if let Some(m) = v.as_object_mut() {
        // wall clock (Instance::init / Instance::default), see module comment
        m.remove("lastModifiedMillis");
        m.remove("registerTime");
    }
    canon(v)
}

fn server_value_json(v: &McpServerValue) -> Value {
    let mut j = serde_json::to_value(v).unwrap_or(Value::Null);
    // ToolRouteRule.service_namespace is #[serde(skip_serializing)]: put it back by hand
    if let Some(tools) = j.get_mut("tools").and_then(|t| t.as_array_mut()) {
        for (i, t) in tools.iter_mut().enumerate() {
            if let (Some(rr), Some(src)) = (
                t.get_mut("routeRule").and_then(|r| r.as_object_mut()),
                v.tools.get(i),
            ) {
                rr.insert(
                    "serviceNamespace".into(),
                    json!(src
                        .route_rule
                        .service_namespace
                        .as_ref()
                        .map(|s| s.as_ref().clone())),
                );
            }
        }
    }
    j
}

fn server_json(s: &McpServer) -> Value {
    let mut j = serde_json::to_value(s).unwrap_or(Value::Null);
    if let Some(m) = j.as_object_mut() {
        m.insert("currentValue".into(), server_value_json(&s.current_value));
        m.insert("releaseValue".into(), server_value_json(&s.release_value));
        m.insert(
            "histories".into(),
            Value::Array(s.histories.iter().map(|h| server_value_json(h)).collect()),
        );
    }
    canon(j)
}

async fn cache_expire(node: &MiniNode, key: &CacheKey) -> anyhow::Result<Value> {
    // Ttl answers `expire - now_second` (clamped to -2): rebuild `expire` inside one wall-clock second
    for _ in 0..5 {
        let n1 = rnacos::now_second_i32();
        let r = node
            .direct_cache
            .send(CacheManagerLocalReq::Ttl(key.clone()))
            .await??;
        let n2 = rnacos::now_second_i32();
        if n1 != n2 {
            continue;
        }
        return Ok(match r {
            CacheManagerRaftResult::Ttl(t) if t > -2 => json!(t as i64 + n1 as i64),
            _ => Value::Null,
        });
    }
    Ok(json!("unstable"))
}

/// -> (state dump, last-applied bookkeeping).  The bookkeeping is kept OUT of the dump: the replay path
/// never writes it (in production it is already on disk), so it is not part of the state comparison.
pub async fn dump(node: &MiniNode, occur: &Occur) -> anyhow::Result<(Value, Value)> {
    // ---- config
    let mut cfg_keys = vec![];
    for (d, g, t) in &occur.config_keys {
        let key = ConfigKey::new(d, g, t);
        let get = match node.config.send(ConfigCmd::GET(key.clone())).await?? {
            ConfigResult::Data {
                value,
                md5,
                config_type,
                desc,
                last_modified,
            } => json!({
                "content": value.as_ref(), "md5": md5.as_ref(),
                "config_type": config_type.as_ref().map(|s| s.as_ref().clone()),
                "desc": desc.as_ref().map(|s| s.as_ref().clone()),
                // from op_time / histories.last().last_time of the request, not from the clock
                "last_modified": last_modified,
            }),
            _ => Value::Null,
        };
        let hp = ConfigHistoryParam {
            data_id: Some(d.clone()),
            group: Some(g.clone()),
            tenant: Some(t.clone()),
            offset: Some(0),
            limit: Some(1000),
            ..Default::default()
        };
        let hist = match node
            .config
            .send(ConfigCmd::QueryHistoryPageInfo(Box::new(hp)))
            .await??
        {
            ConfigResult::ConfigHistoryInfoPage(total, list) => {
                let l: Vec<Value> = list
                    .into_iter()
                    .map(|h| {
                        json!({"id": h.id, "content": h.content,
                               "modified_time": h.modified_time, "op_user": h.op_user})
                    })
                    .collect();
                json!({"total": total, "list": l})
            }
            _ => Value::Null,
        };
        cfg_keys.push(json!({"key": key.build_key(), "get": get, "history": hist}));
    }
    let qp = ConfigQueryParam {
        tenant: None, // None = every tenant of the TenantIndex
        query_context: true,
        offset: 0,
        limit: BIG,
        ..Default::default()
    };
    let cfg_page = match node
        .config
        .send(ConfigCmd::QueryPageInfo(Box::new(qp)))
        .await??
    {
        ConfigResult::ConfigInfoPage(total, list) => {
            json!({"total": total, "list": sort_values(list.iter().map(to_canon).collect())})
        }
        _ => Value::Null,
    };

    // ---- table
    let mut names: Vec<Arc<String>> = match node
        .table
        .send(TableManagerQueryReq::QueryTableNames)
        .await??
    {
        TableManagerResult::TableNames(n) => n,
        _ => vec![],
    };
    names.sort();
    let mut tables = vec![];
    for n in &names {
        let q = TableManagerQueryReq::QueryPageList {
            table_name: n.clone(),
            like_key: None,
            offset: None,
            limit: None,
            is_rev: false,
        };
        if let TableManagerResult::PageListResult(total, list) = node.table.send(q).await?? {
            let rows: Vec<Value> = list.iter().map(|(k, v)| json!([hex(k), hex(v)])).collect();
            tables.push(json!({"name": n.as_ref(), "total": total, "rows": rows}));
        }
    }

    // ---- namespace
    let ns = match node.namespace.send(NamespaceQueryReq::List).await?? {
        NamespaceQueryResult::List(l) => {
            let order: Vec<Value> = l
                .iter()
                .map(|n| json!({"id": n.namespace_id.as_ref(), "name": n.namespace_name, "flag": n.flag}))
                .collect();
            json!({"order": order.clone(), "sorted": sort_values(order)})
        }
        _ => Value::Null,
    };

    // ---- mcp
    let mut servers = vec![];
    let mut unique_keys: BTreeSet<String> = occur.mcp_unique_keys.clone();
    if let McpManagerResult::ServerPageInfo(_, list) = node
        .mcp
        .send(McpManagerReq::QueryServer(McpQueryParam {
            offset: 0,
            limit: BIG,
            namespace_id: None,
            name_filter: None,
        }))
        .await??
    {
        for dto in list {
            if let McpManagerResult::ServerInfo(Some(s)) =
                node.mcp.send(McpManagerReq::GetServer(dto.id)).await??
            {
                unique_keys.insert(s.unique_key.as_ref().clone());
                servers.push(server_json(&s));
            }
        }
    }
    let mut by_key = vec![];
    for k in &unique_keys {
        let id = match node
            .mcp
            .send(McpManagerReq::GetServerByKey(Arc::new(k.clone())))
            .await??
        {
            McpManagerResult::ServerInfo(Some(s)) => json!(s.id),
            _ => Value::Null,
        };
        by_key.push(json!([k, id]));
    }
    let mut tool_specs = vec![];
    if let McpManagerResult::ToolSpecPageInfo(_, list) = node
        .mcp
        .send(McpManagerReq::QueryToolSpec(McpToolSpecQueryParam {
            offset: 0,
            limit: BIG,
            namespace_id: None,
            group_filter: None,
            tool_name_filter: None,
        }))
        .await??
    {
        for dto in list {
            let key = ToolKey::new(
                dto.namespace.clone(),
                dto.group.clone(),
                dto.tool_name.clone(),
            );
            if let McpManagerResult::ToolSpecInfo(Some(t)) =
                node.mcp.send(McpManagerReq::GetToolSpec(key)).await??
            {
                tool_specs.push(to_canon(t.as_ref()));
            }
        }
    }

    // ---- naming
    let mut services = vec![];
    for (n, g, s) in &occur.services {
        let key = ServiceKey::new(n, g, s);
        let info = match node
            .naming
            .send(NamingCmd::QueryServiceOnly(key.clone()))
            .await??
        {
            NamingResult::ServiceDto(Some(i)) => {
                let md: Option<BTreeMap<String, String>> = i
                    .metadata
                    .as_ref()
                    .map(|m| m.iter().map(|(k, v)| (k.clone(), v.clone())).collect());
                canon(json!({
                    "instance_size": i.instance_size,
                    "healthy_instance_size": i.healthy_instance_size,
                    "metadata": md,
                    "protect_threshold": i.protect_threshold.map(|f| f as f64),
                }))
            }
            _ => Value::Null,
        };
        let instances = match node
            .naming
            .send(NamingCmd::QueryAllInstanceList(key))
            .await??
        {
            NamingResult::InstanceList(l) => {
                sort_values(l.iter().map(|i| instance_json(i)).collect())
            }
            _ => vec![],
        };
        services.push(json!({"namespace": n, "group": g, "service": s,
                             "info": info, "instances": instances}));
    }

    // ---- cache (DirectCacheManager + legacy CacheManager)
    let mut cache = vec![];
    for (t, k) in &occur.cache_keys {
        let ct = match CacheType::from_data(*t) {
            Ok(c) => c,
            Err(_) => continue,
        };
        let key = CacheKey::new(ct, Arc::new(k.clone()));
        let is_limit = occur.limit_keys.contains(&(*t, k.clone()));
        let mut masked = false;
        let get = match node
            .direct_cache
            .send(CacheManagerLocalReq::Get(key.clone()))
            .await??
        {
            CacheManagerRaftResult::Value(CacheValue::String(s))
                if is_limit && mask_limiter(&s).is_some() =>
            {
                masked = true;
                json!({ "limiter": mask_limiter(&s) })
            }
            o => to_canon(&o),
        };
        let exists = to_canon(
            &node
                .direct_cache
                .send(CacheManagerLocalReq::Exists(key.clone()))
                .await??,
        );
        let mut expire = cache_expire(node, &key).await?;
        if masked {
            // a limiter entry expires at (now_millis + window) / 1000: wall clock
            expire = json!("*");
        }
        let legacy = to_canon(&node.cache.send(CacheManagerReq::Get(key.clone())).await??);
        cache.push(json!({"type": t, "key": k, "get": get, "exists": exists,
                          "expire": expire, "legacy": legacy}));
    }

    // ---- raft index / apply manager
    let index = {
        let (member, mac, addrs) = match node.index.send(RaftIndexRequest::LoadMember).await?? {
            RaftIndexResponse::MemberShip {
                member,
                member_after_consensus,
                node_addrs,
            } => {
                let mut a: Vec<(u64, String)> = node_addrs
                    .iter()
                    .map(|(k, v)| (*k, v.as_ref().clone()))
                    .collect();
                a.sort();
                (json!(member), json!(member_after_consensus), json!(a))
            }
            _ => (Value::Null, Value::Null, Value::Null),
        };
        let last_applied = match node.index.send(RaftIndexRequest::LoadIndexInfo).await?? {
            RaftIndexResponse::RaftIndexInfo {
                last_applied_log, ..
            } => json!(last_applied_log),
            _ => Value::Null,
        };
        let apply_last = match node
            .apply
            .send(StateApplyRequest::GetLastAppliedLog)
            .await??
        {
            StateApplyResponse::LastAppliedLog(v) => json!(v),
            _ => Value::Null,
        };
        (
            json!({"members": member, "member_after_consensus": mac, "node_addrs": addrs}),
            json!({"index_last_applied_log": last_applied,
                   "apply_manager_last_applied_log": apply_last}),
        )
    };
    let (index, applied) = index;

    let (snapshot, sequences) = snapshot_dump(node, occur).await?;

    Ok((
        json!({
            "config": {"keys": cfg_keys, "page": cfg_page},
            "table": {"names": names.iter().map(|n| n.as_ref().clone()).collect::<Vec<_>>(), "tables": tables},
            "namespace": ns,
            "mcp": {"servers": servers, "by_key": by_key, "tool_specs": tool_specs},
            "naming": services,
            "cache": cache,
            "index": index,
            "sequences": sequences,
            "snapshot": snapshot,
        }),
        applied,
    ))
}

// ------------------------------------------------------------------------------------------------
// samples: one representative ClientRequest per variant / sub-operation, built from the real types
// ------------------------------------------------------------------------------------------------

fn s(x: &str) -> Arc<String> {
    Arc::new(x.to_string())
}

pub fn samples() -> Value {
    let mut m: BTreeMap<String, Value> = BTreeMap::new();
    let mut put = |name: &str, r: ClientRequest| {
        m.insert(name.to_string(), serde_json::to_value(&r).unwrap());
    };
    put(
        "NodeAddr/-",
        ClientRequest::NodeAddr {
            id: 2,
            addr: s("127.0.0.1:9849"),
        },
    );
    put("Members/-", ClientRequest::Members(vec![1, 2, 3]));
    put(
        "ConfigSet/-",
        ClientRequest::ConfigSet {
            key: "d1\u{2}g1\u{2}t1".to_string(),
            value: s("content-1"),
            config_type: Some(s("json")),
            desc: Some(s("desc-1")),
            history_id: 1,
            history_table_id: Some(100),
            op_time: 1700000000000,
            op_user: Some(s("u1")),
        },
    );
    let vdo = ConfigValueDO {
        content: Some("full-1".to_string()),
        histories: vec![ConfigHistoryItemDO {
            id: Some(1),
            content: Some("full-1".to_string()),
            last_time: Some(5),
            op_user: None,
        }],
        config_type: None,
        desc: None,
    };
    put(
        "ConfigFullValue/-",
        ClientRequest::ConfigFullValue {
            key: "d2\u{2}g1".as_bytes().to_vec(),
            value: vdo.to_bytes().unwrap(),
            last_seq_id: Some(7),
        },
    );
    put(
        "ConfigRemove/-",
        ClientRequest::ConfigRemove {
            key: "d1\u{2}g1\u{2}t1".to_string(),
        },
    );
    // TableManagerReq
    put(
        "TableManagerReq/Set",
        ClientRequest::TableManagerReq(TableManagerReq::Set {
            table_name: s("tb1"),
            key: b"k1".to_vec(),
            value: b"v1".to_vec(),
            last_seq_id: Some(3),
        }),
    );
    put(
        "TableManagerReq/Remove",
        ClientRequest::TableManagerReq(TableManagerReq::Remove {
            table_name: s("tb1"),
            key: b"k1".to_vec(),
        }),
    );
    put(
        "TableManagerReq/Drop",
        ClientRequest::TableManagerReq(TableManagerReq::Drop(s("tb1"))),
    );
    put(
        "TableManagerReq/NextId",
        ClientRequest::TableManagerReq(TableManagerReq::NextId {
            table_name: s("tb1"),
            seq_step: Some(10),
        }),
    );
    put(
        "TableManagerReq/SetSeqId",
        ClientRequest::TableManagerReq(TableManagerReq::SetSeqId {
            table_name: s("tb1"),
            last_seq_id: 40,
        }),
    );
    put(
        "TableManagerReq/SetUseAutoId",
        ClientRequest::TableManagerReq(TableManagerReq::SetUseAutoId {
            table_name: s("tb1"),
            value: b"v2".to_vec(),
        }),
    );
    put(
        "TableManagerReq/ReloadTable",
        ClientRequest::TableManagerReq(TableManagerReq::ReloadTable),
    );
    // old-format T_CACHE row (accepted by AdaptationUtils::build_raft_req_from_old): key "<type>\0<key>",
    // value = prost CacheItemDo{cache_type,data,timeout(absolute second)}
    {
        let item = rnacos::raft::cache::model::CacheItemDo {
            cache_type: 1,
            data: b"old-value".to_vec(),
            // must stay below now + 2_147_483 s: the legacy CacheManager (`inner_mem_cache::MemCache::set`)
            // computes `(timeout - now) * 1000` in i32 (panics in a debug build / wraps in release)
            timeout: rnacos::now_second_i32() + 1_000_000,
        };
        put(
            "TableManagerReq/Set@T_CACHE",
            ClientRequest::TableManagerReq(TableManagerReq::Set {
                table_name: CACHE_TREE_NAME.clone(),
                key: b"1\0ck1".to_vec(),
                value: item.to_bytes(),
                last_seq_id: None,
            }),
        );
        put(
            "TableManagerReq/Remove@T_CACHE",
            ClientRequest::TableManagerReq(TableManagerReq::Remove {
                table_name: CACHE_TREE_NAME.clone(),
                key: b"1\0ck1".to_vec(),
            }),
        );
    }
    // NamespaceRaftReq
    let nsp = NamespaceParam {
        namespace_id: s("ns1"),
        namespace_name: Some("ns-one".to_string()),
        r#type: Some("2".to_string()),
    };
    put(
        "NamespaceReq/AddOnly",
        ClientRequest::NamespaceReq(NamespaceRaftReq::AddOnly(nsp.clone())),
    );
    put(
        "NamespaceReq/Update",
        ClientRequest::NamespaceReq(NamespaceRaftReq::Update(nsp.clone())),
    );
    put(
        "NamespaceReq/Set",
        ClientRequest::NamespaceReq(NamespaceRaftReq::Set(nsp)),
    );
    put(
        "NamespaceReq/Delete",
        ClientRequest::NamespaceReq(NamespaceRaftReq::Delete { id: s("ns1") }),
    );
    put(
        "NamespaceReq/InitFromOldValue",
        ClientRequest::NamespaceReq(NamespaceRaftReq::InitFromOldValue(s(
            "[{\"namespaceId\":\"ns2\",\"namespaceName\":\"ns-two\",\"type\":\"2\"}]",
        ))),
    );
    // SequenceRaftReq
    put(
        "SequenceReq/NextId",
        ClientRequest::SequenceReq {
            req: SequenceRaftReq::NextId(s("seq1")),
        },
    );
    put(
        "SequenceReq/NextRange",
        ClientRequest::SequenceReq {
            req: SequenceRaftReq::NextRange(s("seq1"), 100),
        },
    );
    put(
        "SequenceReq/SetId",
        ClientRequest::SequenceReq {
            req: SequenceRaftReq::SetId(s("seq1"), 500),
        },
    );
    put(
        "SequenceReq/RemoveId",
        ClientRequest::SequenceReq {
            req: SequenceRaftReq::RemoveId(s("seq1")),
        },
    );
    // McpManagerRaftReq
    let tool_key = ToolKey::new(s("ns1"), s("grp1"), s("tool1"));
    let function = ToolFunctionValue {
        name: s("tool1"),
        description: s("tool one"),
        input_schema: Box::new(JsonSchema::new_object().add_property(
            "city",
            JsonSchema {
                schema_type: rnacos::mcp::model::tools::JsonType::String,
                properties: None,
                items: None,
                required: None,
                description: Some("city name".to_string()),
                format: None,
                min_items: None,
                max_items: None,
            },
        )),
    };
    let tsp = ToolSpecParam {
        namespace: s("ns1"),
        group: s("grp1"),
        tool_name: s("tool1"),
        parameters: function.clone(),
        version: 1,
        update_time: 1700000000100,
        op_user: Some(s("u1")),
    };
    let mut headers = std::collections::HashMap::new();
    headers.insert("X-A".to_string(), s("1"));
    let route_rule = ToolRouteRule {
        protocol: s("http"),
        url: s("/api/tool1"),
        method: s("POST"),
        addition_headers: headers,
        convert_type: ConvertType::None,
        service_namespace: Some(s("ns1")),
        service_group: s("DEFAULT_GROUP"),
        service_name: s("svc1"),
    };
    let simple_tool = McpSimpleTool {
        tool_name: s("tool1"),
        tool_key: tool_key.clone(),
        tool_version: 1,
        route_rule: route_rule.clone(),
    };
    let sp = McpServerParam {
        id: 11,
        unique_key: Some(s("server-key-11")),
        value_id: 21,
        tools: vec![simple_tool.clone()],
        op_user: s("u1"),
        update_time: 1700000000200,
        namespace: Some(s("ns1")),
        name: Some(s("server11")),
        description: Some(s("server eleven")),
        token: None,
        auth_keys: Some(vec![s("auth-1")]),
        publish_value_id: Some(22),
    };
    put(
        "McpReq/AddServer",
        ClientRequest::McpReq {
            req: McpManagerRaftReq::AddServer(sp.clone()),
        },
    );
    let mut sp2 = sp.clone();
    sp2.publish_value_id = None;
    sp2.description = Some(s("server eleven (updated)"));
    sp2.update_time = 1700000000300;
    put(
        "McpReq/UpdateServer",
        ClientRequest::McpReq {
            req: McpManagerRaftReq::UpdateServer(sp2),
        },
    );
    put(
        "McpReq/PublishCurrentServer",
        ClientRequest::McpReq {
            req: McpManagerRaftReq::PublishCurrentServer(11, 23),
        },
    );
    put(
        "McpReq/PublishHistoryServer",
        ClientRequest::McpReq {
            req: McpManagerRaftReq::PublishHistoryServer(11, 21),
        },
    );
    put(
        "McpReq/RemoveServer",
        ClientRequest::McpReq {
            req: McpManagerRaftReq::RemoveServer(11),
        },
    );
    let mcp_tool = simple_tool.clone().to_mcp_tool(&Default::default());
    let sv = McpServerValue {
        id: 31,
        description: s("value 31"),
        tools: vec![mcp_tool],
        op_user: s("u2"),
        update_time: 1700000000400,
    };
    let server = McpServer {
        id: 12,
        unique_key: s("server-key-12"),
        namespace: s("ns1"),
        name: s("server12"),
        description: s("server twelve"),
        auth_keys: vec![s("auth-2")],
        create_time: 1700000000400,
        create_user: s("u2"),
        current_value: Arc::new(sv.clone()),
        release_value: Arc::new(McpServerValue::default()),
        histories: vec![],
    };
    put(
        "McpReq/SetServer",
        ClientRequest::McpReq {
            req: McpManagerRaftReq::SetServer(server),
        },
    );
    put(
        "McpReq/UpdateToolSpec",
        ClientRequest::McpReq {
            req: McpManagerRaftReq::UpdateToolSpec(tsp.clone()),
        },
    );
    let mut tsp2 = tsp.clone();
    tsp2.tool_name = s("tool2");
    tsp2.version = 2;
    put(
        "McpReq/UpdateToolSpecList",
        ClientRequest::McpReq {
            req: McpManagerRaftReq::UpdateToolSpecList(vec![tsp.clone(), tsp2]),
        },
    );
    put(
        "McpReq/RemoveToolSpec",
        ClientRequest::McpReq {
            req: McpManagerRaftReq::RemoveToolSpec(tool_key.clone()),
        },
    );
    let mut versions = BTreeMap::new();
    versions.insert(
        3u64,
        ToolSpecVersion {
            version: 3,
            function: Arc::new(function),
            op_user: s("u3"),
            update_time: 1700000000500,
            ref_count: 0,
        },
    );
    put(
        "McpReq/SetToolSpec",
        ClientRequest::McpReq {
            req: McpManagerRaftReq::SetToolSpec(Arc::new(ToolSpec {
                key: ToolKey::new(s("ns1"), s("grp1"), s("tool3")),
                current_version: 3,
                create_time: 1700000000500,
                create_user: s("u3"),
                versions,
            })),
        },
    );
    put(
        "McpReq/ImportFinished",
        ClientRequest::McpReq {
            req: McpManagerRaftReq::ImportFinished,
        },
    );
    // NamingRaftReq (persistent instances)
    let mut md = std::collections::HashMap::new();
    md.insert("zone".to_string(), "a".to_string());
    let ip = InstanceRegisterParam {
        ip: s("10.0.0.1"),
        port: 8080,
        weight: 1.0,
        enabled: true,
        healthy: true,
        ephemeral: false,
        metadata: Arc::new(md),
        namespace_id: s("ns1"),
        group_name: s("DEFAULT_GROUP"),
        service_name: s("svc1"),
        cluster_name: Some("DEFAULT".to_string()),
        app_name: Some("app1".to_string()),
        last_modified_millis: 1700000000600,
    };
    put(
        "NamingReq/RegisterInstance",
        ClientRequest::NamingReq {
            req: NamingRaftReq::RegisterInstance { param: ip.clone() },
        },
    );
    let mut ip2 = ip.clone();
    ip2.weight = 2.0;
    ip2.enabled = false;
    put(
        "NamingReq/UpdateInstance",
        ClientRequest::NamingReq {
            req: NamingRaftReq::UpdateInstance { param: ip2 },
        },
    );
    put(
        "NamingReq/RemoveInstance",
        ClientRequest::NamingReq {
            req: NamingRaftReq::RemoveInstance(InstanceKey {
                namespace_id: s("ns1"),
                group_name: s("DEFAULT_GROUP"),
                service_name: s("svc1"),
                ip: s("10.0.0.1"),
                port: 8080,
            }),
        },
    );
    // CacheManagerRaftReq
    let ck = CacheKey::new(CacheType::String, s("ck1"));
    let set = CacheSetParam {
        key: ck.clone(),
        value: CacheValue::String(s("cv1")),
        ttl: 1000,
        now: 1999999000,
        nx: false,
        xx: false,
    };
    put(
        "CacheReq/Set",
        ClientRequest::CacheReq {
            req: CacheManagerRaftReq::Set(set.clone()),
        },
    );
    let mut set_perm = CacheSetParam::new(ck.clone(), CacheValue::Number(5));
    set_perm.nx = true;
    put(
        "CacheReq/Set@permanent-nx",
        ClientRequest::CacheReq {
            req: CacheManagerRaftReq::Set(set_perm),
        },
    );
    let mut hm = std::collections::HashMap::new();
    hm.insert("a".to_string(), "1".to_string());
    put(
        "CacheReq/Set@map",
        ClientRequest::CacheReq {
            req: CacheManagerRaftReq::Set(CacheSetParam {
                key: CacheKey::new(CacheType::Map, s("mk1")),
                value: CacheValue::Map(Arc::new(hm)),
                ttl: 1000,
                now: 1999999000,
                nx: false,
                xx: false,
            }),
        },
    );
    let mut gs = set.clone();
    gs.value = CacheValue::String(s("cv2"));
    put(
        "CacheReq/GetSet",
        ClientRequest::CacheReq {
            req: CacheManagerRaftReq::GetSet(gs),
        },
    );
    put(
        "CacheReq/Remove",
        ClientRequest::CacheReq {
            req: CacheManagerRaftReq::Remove(ck.clone()),
        },
    );
    put(
        "CacheReq/Expire",
        ClientRequest::CacheReq {
            req: CacheManagerRaftReq::Expire(ck.clone(), 2000000500),
        },
    );
    put(
        "CacheReq/Incr",
        ClientRequest::CacheReq {
            req: CacheManagerRaftReq::Incr(ck.clone(), 2000000600),
        },
    );
    put(
        "CacheReq/Decr",
        ClientRequest::CacheReq {
            req: CacheManagerRaftReq::Decr(ck.clone(), 2000000700),
        },
    );
    put(
        "CacheReq/Get",
        ClientRequest::CacheReq {
            req: CacheManagerRaftReq::Get(ck.clone()),
        },
    );
    put(
        "CacheReq/Exists",
        ClientRequest::CacheReq {
            req: CacheManagerRaftReq::Exists(ck.clone()),
        },
    );
    put(
        "CacheReq/Ttl",
        ClientRequest::CacheReq {
            req: CacheManagerRaftReq::Ttl(ck),
        },
    );
    put(
        "CacheReq/Limit",
        ClientRequest::CacheReq {
            req: CacheManagerRaftReq::Limit(CacheLimiterReq::Day {
                key: s("lim1"),
                limit: 5,
            }),
        },
    );
    put(
        "CacheReq/Limit@OtherMills",
        ClientRequest::CacheReq {
            req: CacheManagerRaftReq::Limit(CacheLimiterReq::OtherMills {
                key: s("lim2"),
                limit: 5,
                rate_to_ms_conversion: 3600000,
            }),
        },
    );
    let mut out = serde_json::to_value(&m).unwrap();
    // the convenience form understood by `parse_req`
    out.as_object_mut().unwrap().insert(
        "ConfigFullValue/$FullValue".to_string(),
        json!({"$FullValue": {"key": "d2\u{2}g1", "content": "full-1",
            "histories": [{"id": 1, "content": "full-1", "last_time": 5, "op_user": null}],
            "config_type": null, "desc": null, "last_seq_id": 7}}),
    );
    out
}
