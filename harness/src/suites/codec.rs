//! C20: varint codec, MessageBufReader, FileMessageReader — the real functions.
use super::{block_on, bytes_of, json_bytes, Suite};
use rnacos::common::protobuf_utils::{
    inner_sizeof_varint, read_varint64_offset, write_varint64, FileMessageReader, MessageBufReader,
};
use serde_json::{json, Value};
use std::io::Write;
use std::panic::{catch_unwind, AssertUnwindSafe};

pub struct Codec {}

impl Codec {
    pub fn new() -> Self {
        Codec {}
    }
}

fn dec(bytes: &[u8], off: usize) -> Value {
    match catch_unwind(AssertUnwindSafe(|| read_varint64_offset(bytes, off))) {
        Ok(Ok(v)) => json!({"r":"ok","v":v}),
        Ok(Err(_)) => json!({"r":"err"}),
        Err(_) => json!({"r":"panic"}),
    }
}

impl Suite for Codec {
    fn run(&mut self, case: &Value) -> Value {
        match case["k"].as_str().unwrap_or("") {
            "varint" => {
                let v = case["v"].as_u64().unwrap();
                let enc = write_varint64(v);
                let size = inner_sizeof_varint(v);
                let mut padded = enc.clone();
                padded.extend_from_slice(&bytes_of(&case["rest"]));
                json!({"enc": json_bytes(&enc), "size": size, "dec": dec(&padded, 0)})
            }
            "dec" => {
                let b = bytes_of(&case["bytes"]);
                let off = case["off"].as_u64().unwrap_or(0) as usize;
                dec(&b, off)
            }
            // ops: ["a",[bytes]] append, ["n"] next_message_vec, ["e"] is_empty, ["d"] drain (next until None)
            "buf" => {
                let r = catch_unwind(AssertUnwindSafe(|| {
                    let mut reader = match case.get("init") {
                        Some(init) if !init.is_null() => MessageBufReader::new_with_data(
                            bytes_of(&init["buf"]),
                            init["start"].as_u64().unwrap() as usize,
                        ),
                        _ => MessageBufReader::new(),
                    };
                    let mut out = vec![];
                    for op in case["ops"].as_array().unwrap() {
                        match op[0].as_str().unwrap() {
                            "a" => {
                                reader.append_next_buf(&bytes_of(&op[1]));
                                out.push(json!("a"));
                            }
                            "n" => match reader.next_message_vec() {
                                Some(v) => out.push(json!({"m": json_bytes(v)})),
                                None => out.push(json!("none")),
                            },
                            "d" => {
                                let mut ms = vec![];
                                while let Some(v) = reader.next_message_vec() {
                                    ms.push(json_bytes(v));
                                }
                                out.push(json!({"d": ms}));
                            }
                            "e" => out.push(json!({"e": reader.is_empty()})),
                            _ => out.push(json!("?")),
                        }
                    }
                    out
                }));
                match r {
                    Ok(out) => json!({"r":"ok","out":out}),
                    Err(_) => json!({"r":"panic"}),
                }
            }
            // FileMessageReader over a temp file
            "file" => {
                let data = bytes_of(&case["data"]);
                let start = case["start"].as_u64().unwrap_or(0);
                let ops = case["ops"].as_array().unwrap().clone();
                let mut tmp = tempfile::NamedTempFile::new().unwrap();
                tmp.write_all(&data).unwrap();
                tmp.flush().unwrap();
                let path = tmp.path().to_owned();
                let out: Vec<Value> = block_on(async move {
                    let file = tokio::fs::OpenOptions::new()
                        .read(true)
                        .open(&path)
                        .await
                        .unwrap();
                    let mut reader = FileMessageReader::new(file, start);
                    reader.seek_start(start).await.unwrap();
                    let mut out = vec![];
                    for op in ops {
                        match op[0].as_str().unwrap() {
                            "next" => match reader.read_next().await {
                                Ok(v) => out.push(json!({"m": json_bytes(&v)})),
                                Err(_) => out.push(json!("err")),
                            },
                            "pos" => match reader.read_next_position().await {
                                Ok(p) => out.push(json!({"p": p.position, "l": p.len})),
                                Err(_) => out.push(json!("err")),
                            },
                            "idx" => {
                                let k = op[1].as_u64().unwrap() as usize;
                                match reader.read_index_position(k).await {
                                    Ok(p) => out.push(json!({"p": p.position, "l": p.len})),
                                    Err(_) => out.push(json!("err")),
                                }
                            }
                            "end" => match reader.read_to_end().await {
                                Ok((c, p)) => out.push(json!({"c": c, "p": p.position, "l": p.len})),
                                Err(_) => out.push(json!("err")),
                            },
                            _ => out.push(json!("?")),
                        }
                    }
                    out
                });
                json!({"r":"ok","out":out})
            }
            _ => json!({"r":"badcase"}),
        }
    }
}
