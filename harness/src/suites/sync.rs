//! C15: cluster synchronisation of gRPC instances at component level.
//! Every simulated node is a real `NamingActor` + real `ClusterInstanceDelayNotifyActor` + real
//! `InnerNodeManage` with real `ClusteSyncSender` actors; the requests the senders are handed are
//! captured (hook) into per-pair FIFO queues instead of going over the network, and delivered to
//! the target node through `deliver`, a transcription of the arms of `handle_naming_route`
//! (src/naming/cluster/mod.rs; the check ties the transcription to the source text by a hash).
use super::Suite;
use actix::prelude::*;
use rnacos::naming::cluster::instance_delay_notify::{ClusterInstanceDelayNotifyActor, VerifDelayCmd};
use rnacos::naming::cluster::model::{
    NamingRouteRequest, ProcessRange, SnapshotDataInfo, SnapshotForReceive, SnapshotForSend,
    SyncBatchDataInfo, SyncBatchForReceive,
};
use rnacos::naming::cluster::node_manage::{
    InnerNodeManage, NodeManage, NodeManageRequest, NodeManageResponse, VerifNodeManageCmd,
};
use rnacos::naming::core::{NamingActor, NamingCmd, NamingResult};
use rnacos::naming::model::{DistroData, Instance, InstanceKey};
use rnacos::verif_hooks::sync::{capture_start, capture_stop, capture_take, VerifNamingCmd};
use serde_json::{json, Value};
use std::collections::{BTreeMap, HashMap, HashSet, VecDeque};
use std::convert::TryFrom;
use std::panic::{catch_unwind, AssertUnwindSafe};
use std::sync::Arc;

pub struct Sync {}

impl Sync {
    pub fn new() -> Self {
        Sync {}
    }
}

struct Node {
    id: u64,
    naming: Addr<NamingActor>,
    delay: Addr<ClusterInstanceDelayNotifyActor>,
    inner: Addr<InnerNodeManage>,
    nm: NodeManage,
}

fn client_str(c: &Value) -> Arc<String> {
    Arc::new(format!("{}_c{}", c[0].as_u64().unwrap(), c[1].as_u64().unwrap()))
}

fn client_json(c: &str) -> Value {
    let mut it = c.splitn(2, "_c");
    let n = it.next().and_then(|s| s.parse::<u64>().ok());
    let x = it.next().and_then(|s| s.parse::<u64>().ok());
    match (n, x) {
        (Some(n), Some(x)) => json!([n, x]),
        _ => json!(c),
    }
}

fn make_instance(k: u64, v: u64, client: Arc<String>) -> Instance {
    let mut meta = HashMap::new();
    meta.insert("v".to_string(), v.to_string());
    let mut i = Instance::new(format!("10.0.0.{}", k), 8000);
    i.namespace_id = Arc::new("public".to_string());
    i.group_name = Arc::new("DEFAULT_GROUP".to_string());
    i.service_name = Arc::new(format!("svc{}", k % 3));
    i.cluster_name = "DEFAULT".to_string();
    i.weight = v as f32;
    i.enabled = true;
    i.healthy = true;
    i.ephemeral = true;
    i.metadata = Arc::new(meta);
    i.from_grpc = true;
    i.from_cluster = 0;
    i.client_id = client;
    i.generate_key();
    i
}

fn key_num(ip: &str) -> Value {
    match ip.rsplit('.').next().and_then(|s| s.parse::<u64>().ok()) {
        Some(k) => json!(k),
        None => json!(ip),
    }
}

fn ikey_json(k: &InstanceKey) -> Value {
    // the service name must be the one the key number determines
    let n = key_num(&k.ip);
    if let Some(x) = n.as_u64() {
        if k.service_name.as_str() == format!("svc{}", x % 3) && k.port == 8000 {
            return n;
        }
    }
    json!(format!("{}#{}#{}", k.service_name, k.ip, k.port))
}

fn inst_json(i: &Instance) -> Value {
    let v = i.metadata.get("v").and_then(|s| s.parse::<u64>().ok());
    let consistent = v.map(|v| i.weight == v as f32).unwrap_or(false) && i.enabled && i.healthy;
    json!({
        "k": ikey_json(&i.get_instance_key()),
        "v": if consistent { json!(v) } else { json!(format!("w{}m{:?}e{}h{}", i.weight, v, i.enabled, i.healthy)) },
        "grpc": i.from_grpc,
        "from": i.from_cluster,
        "client": client_json(i.client_id.as_str()),
    })
}

fn sort_json(mut v: Vec<Value>) -> Vec<Value> {
    v.sort_by_key(|x| x.to_string());
    v
}

fn msg_json(req: &NamingRouteRequest) -> Value {
    match req {
        NamingRouteRequest::SyncBatchInstances(data) => {
            match SyncBatchDataInfo::from_bytes(data).and_then(SyncBatchForReceive::try_from) {
                Ok(b) => json!({"t":"batch",
                    "upd": sort_json(b.update_instances.iter().map(inst_json).collect()),
                    "rem": sort_json(b.remove_instances.iter().map(inst_json).collect())}),
                Err(_) => json!({"t":"batch","err":true}),
            }
        }
        NamingRouteRequest::RemoveClientId { client_id } => json!({"t":"rmclient","c":client_json(client_id)}),
        NamingRouteRequest::SyncDistroClientInstances(data) => {
            let d: Vec<Value> = data
                .iter()
                .map(|(c, ks)| json!([client_json(c), sort_json(ks.iter().map(ikey_json).collect())]))
                .collect();
            json!({"t":"distro","data": sort_json(d)})
        }
        NamingRouteRequest::QueryDistroInstanceSnapshot(ks) => {
            json!({"t":"qinst","ks": sort_json(ks.iter().map(ikey_json).collect())})
        }
        NamingRouteRequest::Snapshot(data) => {
            match SnapshotDataInfo::from_bytes(data).and_then(SnapshotForReceive::try_from) {
                Ok(s) => json!({"t":"snapshot","is": sort_json(s.instances.iter().map(inst_json).collect())}),
                Err(_) => json!({"t":"snapshot","err":true}),
            }
        }
        NamingRouteRequest::QuerySnapshot { .. } => json!({"t":"qsnap"}),
        other => json!({"t": other.get_sub_name()}),
    }
}

fn reset_cluster_info(cluster_id: u64, instance: &mut Instance) {
    if instance.from_cluster == 0 {
        instance.from_cluster = cluster_id;
    }
}

/// transcription of the arms of `handle_naming_route` used by the sync protocol
async fn deliver(n: &Node, cluster_id: u64, req: NamingRouteRequest) -> anyhow::Result<()> {
    match req {
        NamingRouteRequest::Ping(cluster_id) => {
            n.nm.active_node(cluster_id);
        }
        NamingRouteRequest::SyncBatchInstances(data) => {
            let snapshot = SyncBatchDataInfo::from_bytes(&data)?;
            let mut batch_receive = SyncBatchForReceive::try_from(snapshot)?;
            let mut client_sets = HashSet::new();
            for instance in &mut batch_receive.update_instances {
                reset_cluster_info(cluster_id, instance);
                if instance.from_cluster == cluster_id {
                    client_sets.insert(instance.client_id.clone());
                }
            }
            if !client_sets.is_empty() {
                n.inner.do_send(NodeManageRequest::AddClientIds(cluster_id, client_sets));
            }
            if !batch_receive.remove_instances.is_empty() {
                n.naming.do_send(NamingCmd::DeleteBatch(batch_receive.remove_instances));
            }
            if !batch_receive.update_instances.is_empty() {
                n.naming.do_send(NamingCmd::UpdateBatch(batch_receive.update_instances));
            }
        }
        NamingRouteRequest::RemoveClientId { client_id } => {
            n.inner.do_send(NodeManageRequest::RemoveClientId(client_id));
        }
        NamingRouteRequest::QuerySnapshot { index, len } => {
            let cmd = NodeManageRequest::QueryOwnerRange(ProcessRange::new(index, len));
            let resp: NodeManageResponse = n.inner.send(cmd).await??;
            if let NodeManageResponse::OwnerRange(ranges) = resp {
                let cmd = NamingCmd::QuerySnapshot(ranges);
                let result: NamingResult = n.naming.send(cmd).await??;
                if let NamingResult::Snapshot(snapshot) = result {
                    n.inner.do_send(NodeManageRequest::SendSnapshot(cluster_id, snapshot));
                }
            }
            n.nm.active_node(cluster_id);
        }
        NamingRouteRequest::Snapshot(data) => {
            let snapshot = SnapshotDataInfo::from_bytes(&data)?;
            let mut snapshot_receive = SnapshotForReceive::try_from(snapshot)?;
            let mut client_sets = HashSet::new();
            for instance in &mut snapshot_receive.instances {
                reset_cluster_info(cluster_id, instance);
                if instance.from_cluster == cluster_id {
                    client_sets.insert(instance.client_id.clone());
                }
            }
            if !client_sets.is_empty() {
                n.inner.do_send(NodeManageRequest::AddClientIds(cluster_id, client_sets));
            }
            n.naming.do_send(NamingCmd::ReceiveSnapshot(snapshot_receive));
        }
        NamingRouteRequest::SyncDistroClientInstances(client_instance) => {
            let client_ids: HashSet<Arc<String>> = client_instance.keys().cloned().collect();
            n.inner
                .send(NodeManageRequest::RemoveDiffClientIds(cluster_id, client_ids))
                .await??;
            let res = n
                .naming
                .send(NamingCmd::DiffGrpcDistroData {
                    data: DistroData::ClientInstances(client_instance),
                    cluster_id,
                })
                .await??;
            if let NamingResult::DiffDistroData(DistroData::DiffClientInstances(diff_data)) = res {
                if !diff_data.is_empty() {
                    let cmd = NodeManageRequest::QueryDiffClientInstances(cluster_id, diff_data);
                    n.inner.send(cmd).await??;
                }
            }
        }
        NamingRouteRequest::QueryDistroInstanceSnapshot(instances) => {
            if instances.is_empty() {
                return Ok(());
            }
            let res = n
                .naming
                .send(NamingCmd::QueryDistroInstanceSnapshot(instances))
                .await??;
            if let NamingResult::DistroInstancesSnapshot(instances) = res {
                if !instances.is_empty() {
                    let snapshot = SnapshotForSend {
                        route_index: 0,
                        node_count: 0,
                        mode: 0,
                        services: vec![],
                        instances,
                    };
                    let cmd = NodeManageRequest::SendSnapshot(cluster_id, snapshot);
                    n.inner.send(cmd).await??;
                }
            }
        }
        _ => {}
    }
    Ok(())
}

async fn make_node(id: u64, ids: &[u64]) -> Node {
    let naming = NamingActor::new().start();
    // the delay actor's own 500 ms timer is parked: flushing is an explicit operation
    let delay = ClusterInstanceDelayNotifyActor::verif_new_with_delay(3_600_000).start();
    let nodes: Vec<(u64, Arc<String>, bool)> = ids
        .iter()
        .map(|i| (*i, Arc::new(format!("node-{}", i)), true))
        .collect();
    let inner =
        InnerNodeManage::verif_new_with_nodes(id, nodes, Some(naming.clone()), false, true).start();
    delay
        .send(VerifDelayCmd::SetManage(Some(inner.clone())))
        .await
        .ok();
    naming
        .send(VerifNamingCmd::Setup {
            node_id: id,
            delay_notify: Some(delay.clone()),
            node_manage: Some(inner.clone()),
        })
        .await
        .ok();
    let nm = NodeManage::new(inner.clone());
    Node {
        id,
        naming,
        delay,
        inner,
        nm,
    }
}

type Queues = BTreeMap<(u64, u64), VecDeque<NamingRouteRequest>>;

/// what happened to ONE node of a script (its local client operations, the messages delivered to
/// it, the peers it was told are dead), in order: replayed on a full in-process node through the
/// REAL `handle_naming_route`
#[derive(Clone)]
enum Ev {
    Local(Value),
    Deliver(u64, NamingRouteRequest),
    Kill(u64),
}

/// let every mailbox drain (naming -> delay -> node manage -> senders), then collect what the
/// senders were handed
async fn settle(nodes: &BTreeMap<u64, Node>, queues: &mut Queues, pings: &mut u64) {
    for _ in 0..3 {
        for n in nodes.values() {
            n.naming.send(VerifNamingCmd::Dump).await.ok();
            n.delay.send(VerifDelayCmd::Dump).await.ok();
            n.inner.send(VerifNodeManageCmd::Dump).await.ok();
        }
        tokio::time::sleep(std::time::Duration::from_millis(1)).await;
    }
    for c in capture_take() {
        if let NamingRouteRequest::Ping(_) = c.req {
            *pings += 1;
            continue;
        }
        queues.entry((c.from, c.target)).or_default().push_back(c.req);
    }
}

async fn dump(nodes: &BTreeMap<u64, Node>, queues: &Queues) -> Value {
    let mut out = vec![];
    for n in nodes.values() {
        let d = n.naming.send(VerifNamingCmd::Dump).await.unwrap().unwrap();
        let reg = sort_json(d.instances.iter().map(|i| inst_json(i)).collect());
        let cset: Vec<Value> = d
            .client_instance_set
            .iter()
            .filter(|(_, ks)| !ks.is_empty())
            .map(|(c, ks)| json!([client_json(c), sort_json(ks.iter().map(ikey_json).collect())]))
            .collect();
        let pend = n.delay.send(VerifDelayCmd::Dump).await.unwrap().unwrap();
        let delay: Vec<Value> = pend
            .iter()
            .map(|(k, i, u)| json!({"k": ikey_json(k), "i": inst_json(i), "u": u}))
            .collect();
        let peers = n.inner.send(VerifNodeManageCmd::Dump).await.unwrap().unwrap();
        let peers: Vec<Value> = peers
            .iter()
            .map(|(id, valid, cs)| json!([id, valid, sort_json(cs.iter().map(|c| client_json(c)).collect())]))
            .collect();
        out.push(json!({"id": n.id, "reg": reg, "cset": sort_json(cset), "delay": sort_json(delay), "peers": peers}));
    }
    let q: Vec<Value> = queues
        .iter()
        .filter(|(_, v)| !v.is_empty())
        .map(|((a, b), v)| json!([a, b, v.iter().map(msg_json).collect::<Vec<_>>()]))
        .collect();
    json!({"nodes": out, "queues": q})
}

async fn run_script(case: Value) -> (Value, Vec<Ev>) {
    let started = std::time::Instant::now();
    let watch = case["route_check"].as_u64();
    let mut events: Vec<Ev> = vec![];
    let ids: Vec<u64> = case["nodes"].as_array().unwrap().iter().map(|x| x.as_u64().unwrap()).collect();
    capture_start();
    let mut nodes: BTreeMap<u64, Node> = BTreeMap::new();
    for id in &ids {
        nodes.insert(*id, make_node(*id, &ids).await);
    }
    let mut queues: Queues = BTreeMap::new();
    let mut pings = 0u64;
    let mut dumps = vec![];
    let mut errors = vec![];
    settle(&nodes, &mut queues, &mut pings).await;
    for op in case["ops"].as_array().unwrap() {
        let name = op[0].as_str().unwrap_or("");
        if watch.is_some() && op[1].as_u64() == watch {
            match name {
                "reg" | "dereg" | "disc" => events.push(Ev::Local(op.clone())),
                "kill" => events.push(Ev::Kill(op[2].as_u64().unwrap())),
                "restart" => events.clear(),
                _ => {}
            }
        }
        match name {
            "reg" => {
                let n = &nodes[&op[1].as_u64().unwrap()];
                let inst = make_instance(op[3].as_u64().unwrap(), op[4].as_u64().unwrap(), client_str(&op[2]));
                n.naming.send(NamingCmd::Update(inst, None)).await.ok();
            }
            "dereg" => {
                let n = &nodes[&op[1].as_u64().unwrap()];
                let inst = make_instance(op[3].as_u64().unwrap(), 0, client_str(&op[2]));
                n.naming.send(NamingCmd::Delete(inst)).await.ok();
            }
            "disc" => {
                let n = &nodes[&op[1].as_u64().unwrap()];
                n.naming.send(NamingCmd::RemoveClient(client_str(&op[2]))).await.ok();
            }
            "flush" => {
                let n = &nodes[&op[1].as_u64().unwrap()];
                n.delay.send(VerifDelayCmd::Flush).await.ok();
            }
            "distro" => {
                let n = &nodes[&op[1].as_u64().unwrap()];
                n.inner.send(VerifNodeManageCmd::SendDistro).await.ok();
            }
            "qsnap" => {
                let n = &nodes[&op[1].as_u64().unwrap()];
                n.inner.send(VerifNodeManageCmd::LoadSnapshot).await.ok();
            }
            "kill" => {
                let n = &nodes[&op[1].as_u64().unwrap()];
                n.inner.send(VerifNodeManageCmd::Starve(op[2].as_u64().unwrap())).await.ok();
            }
            "deliver" | "drop" => {
                let a = op[1].as_u64().unwrap();
                let b = op[2].as_u64().unwrap();
                let m = queues.get_mut(&(a, b)).and_then(|q| q.pop_front());
                if let (Some(m), "deliver") = (m, name) {
                    if watch == Some(b) {
                        events.push(Ev::Deliver(a, m.clone()));
                    }
                    if let Err(e) = deliver(&nodes[&b], a, m).await {
                        errors.push(format!("deliver {}->{}: {}", a, b, e));
                    }
                }
            }
            "restart" => {
                let id = op[1].as_u64().unwrap();
                settle(&nodes, &mut queues, &mut pings).await;
                queues.retain(|(a, b), _| *a != id && *b != id);
                let fresh = make_node(id, &ids).await;
                nodes.insert(id, fresh);
            }
            "dump" => {
                settle(&nodes, &mut queues, &mut pings).await;
                dumps.push(dump(&nodes, &queues).await);
                continue;
            }
            _ => errors.push(format!("unknown op {}", name)),
        }
        settle(&nodes, &mut queues, &mut pings).await;
    }
    settle(&nodes, &mut queues, &mut pings).await;
    dumps.push(dump(&nodes, &queues).await);
    capture_stop();
    (
        json!({"r":"ok","dumps":dumps,"errors":errors,"pings":pings,"elapsed_ms": started.elapsed().as_millis() as u64}),
        events,
    )
}

/// the direct answers an arm of `handle_naming_route` makes the node send (timers of the full
/// node also send pings, snapshot queries, distro digests and batches at their own pace: those are
/// not answers to a delivery and are left out)
fn answers(out: &mut Vec<Value>) {
    for c in capture_take() {
        match c.req {
            NamingRouteRequest::Snapshot(_) | NamingRouteRequest::QueryDistroInstanceSnapshot(_) => {
                out.push(json!([c.target, msg_json(&c.req)]));
            }
            _ => {}
        }
    }
}

fn dump_one(
    b: u64,
    d: rnacos::verif_hooks::sync::VerifNamingDump,
    peers: Vec<(u64, bool, Vec<Arc<String>>)>,
    errors: Vec<String>,
    ans: Vec<Vec<Value>>,
) -> Value {
    let reg = sort_json(d.instances.iter().map(|i| inst_json(i)).collect());
    let cset: Vec<Value> = d
        .client_instance_set
        .iter()
        .filter(|(_, ks)| !ks.is_empty())
        .map(|(c, ks)| json!([client_json(c), sort_json(ks.iter().map(ikey_json).collect())]))
        .collect();
    let peers: Vec<Value> = peers
        .iter()
        .map(|(id, valid, cs)| json!([id, valid, sort_json(cs.iter().map(|c| client_json(c)).collect())]))
        .collect();
    let ans: Vec<Value> = ans.into_iter().map(|a| Value::Array(sort_json(a))).collect();
    json!({"id": b, "reg": reg, "cset": sort_json(cset), "peers": peers, "errors": errors, "answers": ans})
}

/// the events of node `b` replayed twice inside one FULL in-process node's actor system (every
/// actor of a real server; raft group not initialised): once on a light node through `deliver`
/// (the transcription), once on the full node through the REAL `handle_naming_route`.  Returns
/// both registries, client indexes, peer tables and per-event answers.
fn route_replay(b: u64, ids: &[u64], events: Vec<Ev>) -> Value {
    use rnacos::common::constant::GRPC_HEAD_KEY_CLUSTER_ID;
    use rnacos::naming::cluster::handle_naming_route;
    let env = vec![
        ("RNACOS_RAFT_NODE_ID".to_string(), b.to_string()),
        ("RNACOS_RAFT_AUTO_INIT".to_string(), "false".to_string()),
    ];
    let node = super::node::Node::start(&env);
    let app = node.app.clone();
    let ids = ids.to_vec();
    node.runner.block_on(async move {
        capture_start();
        // ---- pass 1: the light node and the transcription
        let light = make_node(b, &ids).await;
        let mut l_err = vec![];
        let mut l_ans = vec![];
        for ev in events.iter().cloned() {
            match ev {
                Ev::Local(op) => {
                    let client = client_str(&op[2]);
                    match op[0].as_str().unwrap_or("") {
                        "reg" => {
                            let inst = make_instance(op[3].as_u64().unwrap(), op[4].as_u64().unwrap(), client);
                            light.naming.send(NamingCmd::Update(inst, None)).await.ok();
                        }
                        "dereg" => {
                            let inst = make_instance(op[3].as_u64().unwrap(), 0, client);
                            light.naming.send(NamingCmd::Delete(inst)).await.ok();
                        }
                        _ => {
                            light.naming.send(NamingCmd::RemoveClient(client)).await.ok();
                        }
                    }
                }
                Ev::Deliver(from, req) => {
                    if let Err(e) = deliver(&light, from, req).await {
                        l_err.push(format!("deliver from {}: {}", from, e));
                    }
                }
                Ev::Kill(x) => {
                    light.inner.send(VerifNodeManageCmd::Starve(x)).await.ok();
                }
            }
            for _ in 0..3 {
                light.naming.send(VerifNamingCmd::Dump).await.ok();
                light.inner.send(VerifNodeManageCmd::Dump).await.ok();
                tokio::time::sleep(std::time::Duration::from_millis(1)).await;
            }
            let mut a = vec![];
            answers(&mut a);
            l_ans.push(a);
        }
        let d = light.naming.send(VerifNamingCmd::Dump).await.unwrap().unwrap();
        let peers = light.inner.send(VerifNodeManageCmd::Dump).await.unwrap().unwrap();
        let light_dump = dump_one(b, d, peers, l_err, l_ans);
        capture_take();

        // ---- pass 2: the full node and the real function
        let nodes: Vec<(u64, Arc<String>)> = ids.iter().map(|i| (*i, Arc::new(format!("127.0.0.1:{}", 19800 + i)))).collect();
        app.naming_inner_node_manage.send(NodeManageRequest::UpdateNodes(nodes)).await.ok();
        let mut f_err = vec![];
        let mut f_ans = vec![];
        for ev in events {
            match ev {
                Ev::Local(op) => {
                    let client = client_str(&op[2]);
                    match op[0].as_str().unwrap_or("") {
                        "reg" => {
                            let inst = make_instance(op[3].as_u64().unwrap(), op[4].as_u64().unwrap(), client);
                            app.naming_addr.send(NamingCmd::Update(inst, None)).await.ok();
                        }
                        "dereg" => {
                            let inst = make_instance(op[3].as_u64().unwrap(), 0, client);
                            app.naming_addr.send(NamingCmd::Delete(inst)).await.ok();
                        }
                        _ => {
                            app.naming_addr.send(NamingCmd::RemoveClient(client)).await.ok();
                        }
                    }
                }
                Ev::Deliver(from, req) => {
                    let mut ext = HashMap::new();
                    ext.insert(GRPC_HEAD_KEY_CLUSTER_ID.to_string(), from.to_string());
                    if let Err(e) = handle_naming_route(&app, req, ext).await {
                        f_err.push(format!("handle_naming_route from {}: {}", from, e));
                    }
                }
                Ev::Kill(x) => {
                    app.naming_inner_node_manage.send(VerifNodeManageCmd::Starve(x)).await.ok();
                }
            }
            for _ in 0..3 {
                app.naming_addr.send(VerifNamingCmd::Dump).await.ok();
                app.naming_inner_node_manage.send(VerifNodeManageCmd::Dump).await.ok();
                tokio::time::sleep(std::time::Duration::from_millis(1)).await;
            }
            let mut a = vec![];
            answers(&mut a);
            f_ans.push(a);
        }
        let d = app.naming_addr.send(VerifNamingCmd::Dump).await.unwrap().unwrap();
        let peers = app.naming_inner_node_manage.send(VerifNodeManageCmd::Dump).await.unwrap().unwrap();
        let full_dump = dump_one(b, d, peers, f_err, f_ans);
        capture_stop();
        capture_take();
        json!({"light": light_dump, "full": full_dump})
    })
}

impl Suite for Sync {
    fn run(&mut self, case: &Value) -> Value {
        let c = case.clone();
        match catch_unwind(AssertUnwindSafe(|| {
            let sys = actix::System::new();
            sys.block_on(run_script(c))
        })) {
            Ok((mut v, events)) => {
                if let Some(b) = case["route_check"].as_u64() {
                    let ids: Vec<u64> = case["nodes"].as_array().unwrap().iter().map(|x| x.as_u64().unwrap()).collect();
                    v["route"] = match catch_unwind(AssertUnwindSafe(|| route_replay(b, &ids, events))) {
                        Ok(r) => r,
                        Err(_) => {
                            capture_stop();
                            json!({"panic": true})
                        }
                    };
                }
                v
            }
            Err(_) => {
                capture_stop();
                json!({"r":"panic"})
            }
        }
    }
}
