/* crashfs: LD_PRELOAD interposer that journals every file mutation under CRASHFS_ROOT.
 *   W <path> <offset> <hex bytes>      write / pwrite / pwrite64 / writev (bytes really written)
 *   T <path> <len>                     ftruncate / ftruncate64 / truncate, and O_TRUNC on open
 *   C <path>                           a file that did not exist was created by open/openat/creat
 *   R <from> <to>                      rename / renameat
 *   U <path>                           unlink / unlinkat
 * One line per mutation, appended to CRASHFS_JOURNAL in the order in which the calls reach the OS:
 * a global lock is held across [real call + journal line].  Paths are resolved through
 * /proc/self/fd; only paths below CRASHFS_ROOT are journalled.  No source change in the program.
 * build: gcc -shared -fPIC -O2 -o libcrashfs.so crashfs.c -ldl -lpthread
 */
#define _GNU_SOURCE
#include <dlfcn.h>
#include <errno.h>
#include <fcntl.h>
#include <limits.h>
#include <pthread.h>
#include <stdarg.h>
#include <stdio.h>
#include <stdlib.h>
#include <string.h>
#include <sys/stat.h>
#include <sys/types.h>
#include <sys/uio.h>
#include <unistd.h>

static pthread_mutex_t mu = PTHREAD_MUTEX_INITIALIZER;
static int jfd = -1;
static char root[PATH_MAX];
static size_t rootlen = 0;
static int ready = 0;

static ssize_t (*real_write)(int, const void *, size_t);
static ssize_t (*real_pwrite)(int, const void *, size_t, off_t);
static ssize_t (*real_pwrite64)(int, const void *, size_t, off64_t);
static ssize_t (*real_writev)(int, const struct iovec *, int);
static int (*real_ftruncate)(int, off_t);
static int (*real_ftruncate64)(int, off64_t);
static int (*real_truncate)(const char *, off_t);
static int (*real_rename)(const char *, const char *);
static int (*real_renameat)(int, const char *, int, const char *);
static int (*real_unlink)(const char *);
static int (*real_unlinkat)(int, const char *, int);
static int (*real_open)(const char *, int, ...);
static int (*real_open64)(const char *, int, ...);
static int (*real_openat)(int, const char *, int, ...);
static int (*real_openat64)(int, const char *, int, ...);
static int (*real_creat)(const char *, mode_t);

static void init_once(void) {
    if (ready) return;
    real_write = dlsym(RTLD_NEXT, "write");
    real_pwrite = dlsym(RTLD_NEXT, "pwrite");
    real_pwrite64 = dlsym(RTLD_NEXT, "pwrite64");
    real_writev = dlsym(RTLD_NEXT, "writev");
    real_ftruncate = dlsym(RTLD_NEXT, "ftruncate");
    real_ftruncate64 = dlsym(RTLD_NEXT, "ftruncate64");
    real_truncate = dlsym(RTLD_NEXT, "truncate");
    real_rename = dlsym(RTLD_NEXT, "rename");
    real_renameat = dlsym(RTLD_NEXT, "renameat");
    real_unlink = dlsym(RTLD_NEXT, "unlink");
    real_unlinkat = dlsym(RTLD_NEXT, "unlinkat");
    real_open = dlsym(RTLD_NEXT, "open");
    real_open64 = dlsym(RTLD_NEXT, "open64");
    real_openat = dlsym(RTLD_NEXT, "openat");
    real_openat64 = dlsym(RTLD_NEXT, "openat64");
    real_creat = dlsym(RTLD_NEXT, "creat");
    const char *r = getenv("CRASHFS_ROOT");
    const char *j = getenv("CRASHFS_JOURNAL");
    if (r && j && real_open) {
        if (!realpath(r, root)) strncpy(root, r, sizeof(root) - 1);
        rootlen = strlen(root);
        jfd = real_open(j, O_WRONLY | O_CREAT | O_APPEND | O_CLOEXEC, 0644);
    }
    ready = 1;
}

static int under_root(const char *p) {
    return jfd >= 0 && rootlen > 0 && strncmp(p, root, rootlen) == 0 && (p[rootlen] == '/' || p[rootlen] == 0);
}

static int fd_path(int fd, char *out) {
    char link[64];
    snprintf(link, sizeof link, "/proc/self/fd/%d", fd);
    ssize_t n = readlink(link, out, PATH_MAX - 1);
    if (n <= 0) return 0;
    out[n] = 0;
    return under_root(out);
}

static int abs_path(int dirfd, const char *p, char *out) {
    char tmp[PATH_MAX];
    if (p[0] == '/') {
        strncpy(tmp, p, sizeof tmp - 1); tmp[sizeof tmp - 1] = 0;
    } else if (dirfd == AT_FDCWD) {
        if (!getcwd(tmp, sizeof tmp - 2)) return 0;
        strncat(tmp, "/", sizeof tmp - strlen(tmp) - 1);
        strncat(tmp, p, sizeof tmp - strlen(tmp) - 1);
    } else {
        char link[64]; snprintf(link, sizeof link, "/proc/self/fd/%d", dirfd);
        ssize_t n = readlink(link, tmp, sizeof tmp - 2);
        if (n <= 0) return 0;
        tmp[n] = 0;
        strncat(tmp, "/", sizeof tmp - strlen(tmp) - 1);
        strncat(tmp, p, sizeof tmp - strlen(tmp) - 1);
    }
    /* resolve the directory part (the file itself may not exist) */
    char *slash = strrchr(tmp, '/');
    if (!slash) return 0;
    char dir[PATH_MAX]; size_t dl = slash - tmp; if (dl == 0) dl = 1;
    memcpy(dir, tmp, dl); dir[dl] = 0;
    char rdir[PATH_MAX];
    if (!realpath(dir, rdir)) return 0;
    snprintf(out, PATH_MAX, "%s/%s", rdir, slash + 1);
    return under_root(out);
}

static void jline(const char *s, size_t n) { if (jfd >= 0) real_write(jfd, s, n); }

static void j_write(const char *path, long long off, const unsigned char *b, size_t n) {
    static const char hx[] = "0123456789abcdef";
    size_t cap = strlen(path) + 64 + 2 * n;
    char *buf = malloc(cap);
    if (!buf) return;
    int k = snprintf(buf, cap, "W %s %lld ", path, off);
    for (size_t i = 0; i < n; i++) { buf[k++] = hx[b[i] >> 4]; buf[k++] = hx[b[i] & 15]; }
    buf[k++] = '\n';
    jline(buf, k);
    free(buf);
}

static void j_simple(const char *fmt, const char *a, const char *b, long long n) {
    char buf[2 * PATH_MAX + 64];
    int k;
    if (b) k = snprintf(buf, sizeof buf, fmt, a, b);
    else if (n >= 0) k = snprintf(buf, sizeof buf, fmt, a, n);
    else k = snprintf(buf, sizeof buf, fmt, a);
    jline(buf, k);
}

static long long cur_offset(int fd) {
    int fl = fcntl(fd, F_GETFL);
    if (fl >= 0 && (fl & O_APPEND)) {
        struct stat st;
        if (fstat(fd, &st) == 0) return (long long)st.st_size;
    }
    return (long long)lseek(fd, 0, SEEK_CUR);
}

ssize_t write(int fd, const void *buf, size_t n) {
    init_once();
    char p[PATH_MAX];
    if (fd == jfd || !fd_path(fd, p)) return real_write(fd, buf, n);
    pthread_mutex_lock(&mu);
    long long off = cur_offset(fd);
    ssize_t r = real_write(fd, buf, n);
    if (r > 0) j_write(p, off, buf, (size_t)r);
    pthread_mutex_unlock(&mu);
    return r;
}

ssize_t writev(int fd, const struct iovec *iov, int cnt) {
    init_once();
    char p[PATH_MAX];
    if (fd == jfd || !fd_path(fd, p)) return real_writev(fd, iov, cnt);
    pthread_mutex_lock(&mu);
    long long off = cur_offset(fd);
    ssize_t r = real_writev(fd, iov, cnt);
    if (r > 0) {
        unsigned char *tmp = malloc((size_t)r);
        if (tmp) {
            size_t done = 0;
            for (int i = 0; i < cnt && done < (size_t)r; i++) {
                size_t take = iov[i].iov_len; if (take > (size_t)r - done) take = (size_t)r - done;
                memcpy(tmp + done, iov[i].iov_base, take); done += take;
            }
            j_write(p, off, tmp, (size_t)r);
            free(tmp);
        }
    }
    pthread_mutex_unlock(&mu);
    return r;
}

ssize_t pwrite(int fd, const void *buf, size_t n, off_t off) {
    init_once();
    char p[PATH_MAX];
    if (!fd_path(fd, p)) return real_pwrite(fd, buf, n, off);
    pthread_mutex_lock(&mu);
    ssize_t r = real_pwrite(fd, buf, n, off);
    if (r > 0) j_write(p, (long long)off, buf, (size_t)r);
    pthread_mutex_unlock(&mu);
    return r;
}

ssize_t pwrite64(int fd, const void *buf, size_t n, off64_t off) {
    init_once();
    char p[PATH_MAX];
    if (!fd_path(fd, p)) return real_pwrite64(fd, buf, n, off);
    pthread_mutex_lock(&mu);
    ssize_t r = real_pwrite64(fd, buf, n, off);
    if (r > 0) j_write(p, (long long)off, buf, (size_t)r);
    pthread_mutex_unlock(&mu);
    return r;
}

int ftruncate(int fd, off_t len) {
    init_once();
    char p[PATH_MAX];
    if (!fd_path(fd, p)) return real_ftruncate(fd, len);
    pthread_mutex_lock(&mu);
    int r = real_ftruncate(fd, len);
    if (r == 0) j_simple("T %s %lld\n", p, NULL, (long long)len);
    pthread_mutex_unlock(&mu);
    return r;
}

int ftruncate64(int fd, off64_t len) {
    init_once();
    char p[PATH_MAX];
    if (!fd_path(fd, p)) return real_ftruncate64(fd, len);
    pthread_mutex_lock(&mu);
    int r = real_ftruncate64(fd, len);
    if (r == 0) j_simple("T %s %lld\n", p, NULL, (long long)len);
    pthread_mutex_unlock(&mu);
    return r;
}

int truncate(const char *path, off_t len) {
    init_once();
    char p[PATH_MAX];
    if (!abs_path(AT_FDCWD, path, p)) return real_truncate(path, len);
    pthread_mutex_lock(&mu);
    int r = real_truncate(path, len);
    if (r == 0) j_simple("T %s %lld\n", p, NULL, (long long)len);
    pthread_mutex_unlock(&mu);
    return r;
}

int rename(const char *a, const char *b) {
    init_once();
    char pa[PATH_MAX], pb[PATH_MAX];
    int ia = abs_path(AT_FDCWD, a, pa), ib = abs_path(AT_FDCWD, b, pb);
    if (!ia && !ib) return real_rename(a, b);
    pthread_mutex_lock(&mu);
    int r = real_rename(a, b);
    if (r == 0) j_simple("R %s %s\n", pa, pb, -1);
    pthread_mutex_unlock(&mu);
    return r;
}

int renameat(int da, const char *a, int db, const char *b) {
    init_once();
    char pa[PATH_MAX], pb[PATH_MAX];
    int ia = abs_path(da, a, pa), ib = abs_path(db, b, pb);
    if (!ia && !ib) return real_renameat(da, a, db, b);
    pthread_mutex_lock(&mu);
    int r = real_renameat(da, a, db, b);
    if (r == 0) j_simple("R %s %s\n", pa, pb, -1);
    pthread_mutex_unlock(&mu);
    return r;
}

int unlink(const char *a) {
    init_once();
    char pa[PATH_MAX];
    if (!abs_path(AT_FDCWD, a, pa)) return real_unlink(a);
    pthread_mutex_lock(&mu);
    int r = real_unlink(a);
    if (r == 0) j_simple("U %s\n", pa, NULL, -1);
    pthread_mutex_unlock(&mu);
    return r;
}

int unlinkat(int d, const char *a, int flags) {
    init_once();
    char pa[PATH_MAX];
    if ((flags & AT_REMOVEDIR) || !abs_path(d, a, pa)) return real_unlinkat(d, a, flags);
    pthread_mutex_lock(&mu);
    int r = real_unlinkat(d, a, flags);
    if (r == 0) j_simple("U %s\n", pa, NULL, -1);
    pthread_mutex_unlock(&mu);
    return r;
}

static int open_common(int which, int dirfd, const char *path, int flags, mode_t mode) {
    char p[PATH_MAX];
    int track = (flags & (O_CREAT | O_TRUNC)) && abs_path(dirfd, path, p);
#ifdef O_TMPFILE
    if ((flags & O_TMPFILE) == O_TMPFILE) track = 0;
#endif
    int existed = 0;
    if (track) {
        pthread_mutex_lock(&mu);
        struct stat st;
        existed = (stat(p, &st) == 0);
    }
    int fd;
    switch (which) {
    case 0: fd = real_open(path, flags, mode); break;
    case 1: fd = real_open64(path, flags, mode); break;
    case 2: fd = real_openat(dirfd, path, flags, mode); break;
    default: fd = real_openat64(dirfd, path, flags, mode); break;
    }
    if (track) {
        if (fd >= 0) {
            if (!existed && (flags & O_CREAT)) j_simple("C %s\n", p, NULL, -1);
            else if (existed && (flags & O_TRUNC)) j_simple("T %s %lld\n", p, NULL, 0);
        }
        pthread_mutex_unlock(&mu);
    }
    return fd;
}

#define GET_MODE mode_t mode = 0; if (flags & O_CREAT) { va_list ap; va_start(ap, flags); mode = va_arg(ap, mode_t); va_end(ap); }

int open(const char *path, int flags, ...) { init_once(); GET_MODE return open_common(0, AT_FDCWD, path, flags, mode); }
int open64(const char *path, int flags, ...) { init_once(); GET_MODE return open_common(1, AT_FDCWD, path, flags, mode); }
int openat(int d, const char *path, int flags, ...) { init_once(); GET_MODE return open_common(2, d, path, flags, mode); }
int openat64(int d, const char *path, int flags, ...) { init_once(); GET_MODE return open_common(3, d, path, flags, mode); }
int creat(const char *path, mode_t mode) { init_once(); return open_common(0, AT_FDCWD, path, O_CREAT | O_WRONLY | O_TRUNC, mode); }
