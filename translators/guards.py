#!/usr/bin/env python3
"""Translator for C18: classifies the namespace-privilege guard of every console API handler and
regenerates coq/Gen/EndpointGuards.v.

For every route of the console route table (console_tables.read_routes) whose pattern lies under
/rnacos/api/ the handler function is resolved through the `use` declarations of src/console/api.rs
(`super::x`, `crate::a::b`, `pub use` re-exports are followed) and its body is classified:

  GuardParam    `X.to_param(&req)` (the caller's privilege travels inside the query parameter, the index
                filters by it) and `param.namespace_privilege.check_option_value_permission(&.., true)`
                in an `if !.. {` before the first data access
  GuardFilter   `user_namespace_privilege!(req)`, `.is_all()` and a `.filter(|e| ..check_option_value_permission(..))`
                over the result (namespace list)
  GuardCheck    `let P = user_namespace_privilege!(req);` and `if !P.check_permission(&..) {` or
                `if !P.check_option_value_permission(&.., false) {` whose block starts with
                `user_no_namespace_permission!` or `return`, before the first data access
  GuardIndex    `X.to_param(&req)` and nothing else: the privilege travels inside the query parameter and only the
                index filter applies it (a forbidden named namespace gives an empty result, not a refusal); accepted
                only while every `fn to_param(self, req: &HttpRequest)` of src/console/model reads
                `user_namespace_privilege!(req)` into the parameter's `namespace_privilege` field
  NoGuard       the body (and the local helper functions it calls) never mentions the caller's privilege

Anything else — privilege tokens in another arrangement, a data access before the check, a guard hidden
in a helper, a handler that cannot be resolved — is refused (broken tie), never skipped.
Data access tokens: `.send(`, `.do_send(`, `config_route.`, `naming_route.`, `raft_request_route.`,
`raft_table_route.`, `NamespaceUtils::`, `mcp_manager`, `.request(`.
"""
import os
import re
import sys

sys.path.insert(0, os.path.dirname(os.path.abspath(__file__)))
import actix_routes  # noqa: E402
import console_tables  # noqa: E402
import rustparse as rp  # noqa: E402
from rustparse import Refuse, coq_str  # noqa: E402

API_PREFIX = "/rnacos/api/"
def uses_privilege(words):
    """the caller's privilege is *used*: the macro, the wrapper type, or a method call on a `.namespace_privilege`
    field (`param.namespace_privilege.check_..`).  A struct field initialiser `namespace_privilege: ..` (login builds
    the session) or the user-management parameter `namespace_privilege_param` is not a use."""
    for i, w in enumerate(words):
        if w in ("user_namespace_privilege", "NamespacePrivilegeGroup"):
            return True
        if w == "namespace_privilege" and i > 0 and words[i - 1] == "." and i + 1 < len(words) and words[i + 1] == ".":
            return True
    return False


def parse_uses(toks, where):
    """top-level `use` / `pub use` declarations -> (imports: name -> [segments], reexports: name -> [segments])"""
    imports, reexports = {}, {}
    i, n = 0, len(toks)
    depth = 0
    while i < n:
        t = toks[i]
        if t.k == "p" and t.v in ("{", "(", "["):
            # skip bodies: only top-level uses count
            i = rp.match_close(toks, i) + 1
            continue
        if t.k == "id" and t.v == "use":
            is_pub = i > 0 and toks[i - 1].k == "id" and toks[i - 1].v == "pub"
            j = i + 1
            # tokens up to ';' (braces of the use tree are balanced inside)
            k = j
            while not (toks[k].k == "p" and toks[k].v == ";"):
                if toks[k].k == "p" and toks[k].v == "{":
                    k = rp.match_close(toks, k)
                k += 1
            tree = toks[j:k]
            for name, path in expand_use(tree, [], where):
                (reexports if is_pub else imports)[name] = path
                if is_pub:
                    imports[name] = path
            i = k + 1
            continue
        i += 1
    return imports, reexports


def expand_use(toks, prefix, where):
    """use-tree tokens -> [(imported name, full segment list)]"""
    out = []
    i, n = 0, len(toks)
    segs = list(prefix)
    while i < n:
        t = toks[i]
        if t.k == "id":
            if t.v == "as":
                alias = toks[i + 1].v
                out.append((alias, list(segs)))
                return out
            segs.append(t.v)
            i += 1
        elif t.k == "p" and t.v == "::":
            i += 1
        elif t.k == "p" and t.v == "*":
            return out          # glob imports bring no nameable handler here
        elif t.k == "p" and t.v == "{":
            e = rp.match_close(toks, i)
            inner = toks[i + 1:e]
            # split at top-level commas
            parts, cur, d = [], [], 0
            for x in inner:
                if x.k == "p" and x.v == "{":
                    d += 1
                elif x.k == "p" and x.v == "}":
                    d -= 1
                if x.k == "p" and x.v == "," and d == 0:
                    parts.append(cur)
                    cur = []
                else:
                    cur.append(x)
            if cur:
                parts.append(cur)
            for p in parts:
                if len(p) == 1 and p[0].k == "id" and p[0].v == "self":
                    out.append((segs[-1], list(segs)))
                else:
                    out += expand_use(p, segs, where)
            return out
        else:
            raise Refuse("%s: cannot read use declaration near %r" % (where, t.v))
    if segs:
        out.append((segs[-1], segs))
    return out


class Resolver:
    def __init__(self, repo):
        self.repo = repo
        self.files = {}

    def file_of_module(self, segs):
        """['crate','console','v2','config_api'] -> rel path"""
        assert segs[0] == "crate"
        base = os.path.join("src", *segs[1:])
        for cand in (base + ".rs", os.path.join(base, "mod.rs")):
            if os.path.exists(os.path.join(self.repo, cand)):
                return cand
        return None

    def load(self, rel):
        if rel not in self.files:
            f = rp.File(os.path.join(self.repo, rel), rel)
            imports, reexports = parse_uses(f.toks, rel)
            self.files[rel] = (f, imports, reexports, f.find_fns())
        return self.files[rel]

    @staticmethod
    def module_of_file(rel):
        p = rel[len("src/"):-len(".rs")].split("/")
        if p[-1] == "mod":
            p = p[:-1]
        return ["crate"] + p

    def absolutise(self, segs, cur_mod):
        """resolve leading `super` / `self` / `crate`"""
        segs = list(segs)
        if segs[0] == "crate":
            return segs
        mod = list(cur_mod)
        while segs and segs[0] == "super":
            mod = mod[:-1]
            segs = segs[1:]
        if segs and segs[0] == "self":
            segs = segs[1:]
        return mod + segs

    def resolve(self, handler_text, from_rel, depth=0):
        """-> (rel file, fn name, def dict)"""
        if depth > 4:
            raise Refuse("handler %s: re-export chain too long" % handler_text)
        f, imports, reexports, fns = self.load(from_rel)
        cur_mod = self.module_of_file(from_rel)
        segs = handler_text.split("::")
        if len(segs) == 1 and segs[0] in fns and segs[0] not in imports:
            ds = fns[segs[0]]
            if len(ds) != 1:
                raise Refuse("%s: %s defined %d times" % (from_rel, segs[0], len(ds)))
            return from_rel, segs[0], ds[0]
        if segs[0] in imports:
            full = self.absolutise(imports[segs[0]] + segs[1:], cur_mod)
        elif segs[0] in ("crate", "super", "self"):
            full = self.absolutise(segs, cur_mod)
        else:
            raise Refuse("%s: cannot resolve handler %s (no matching use declaration)" % (from_rel, handler_text))
        mod, name = full[:-1], full[-1]
        rel = self.file_of_module(mod)
        if rel is None:
            raise Refuse("handler %s: module %s has no source file" % (handler_text, "::".join(mod)))
        f2, imports2, reexports2, fns2 = self.load(rel)
        if name in fns2:
            ds = fns2[name]
            if len(ds) != 1:
                raise Refuse("%s: %s defined %d times" % (rel, name, len(ds)))
            return rel, name, ds[0]
        if name in reexports2:
            return self.resolve("::".join(self.absolutise(reexports2[name], self.module_of_file(rel))), rel, depth + 1)
        raise Refuse("handler %s: fn %s not found in %s" % (handler_text, name, rel))


DATA_ACCESS = [[".", "send", "("], [".", "do_send", "("], ["config_route", "."], ["naming_route", "."], ["raft_request_route", "."],
               ["raft_table_route", "."], ["NamespaceUtils", "::"], ["mcp_manager"], [".", "request", "("]]


def first_index(words, pats):
    best = None
    for p in pats:
        n = len(p)
        for i in range(len(words) - n + 1):
            if words[i:i + n] == p:
                if best is None or i < best:
                    best = i
                break
    return best


def classify(rel, name, d, fns_in_file):
    body = d["body"]
    words = [t.v for t in body]
    where = "%s:%s" % (rel, name)
    has_priv = uses_privilege(words)
    if not has_priv and ". to_param ( & req )" in " ".join(words):
        # the privilege travels inside the query parameter (the request model's to_param(&req) reads it from the
        # session — verified in generate()) and the handler itself never refuses: the index filter decides
        return "GuardIndex"
    if not has_priv:
        # one level of local helpers
        for i, w in enumerate(words[:-1]):
            if words[i + 1] == "(" and w in fns_in_file and w != name and (i == 0 or words[i - 1] not in (".", "::")):
                for hd in fns_in_file[w]:
                    if uses_privilege([x.v for x in hd["body"]]):
                        raise Refuse("%s: the namespace privilege is handled in helper %s — cannot classify" % (where, w))
        return "NoGuard"
    checks = [[".", "check_permission", "("], [".", "check_option_value_permission", "("], [".", "is_all", "(", ")"]]
    ci = first_index(words, checks)
    if ci is None:
        raise Refuse("%s: mentions the namespace privilege but never checks it" % where)
    di = first_index(words, DATA_ACCESS)
    text = " ".join(words)
    if ". to_param ( & req )" in text and re.search(r"namespace_privilege \. check_option_value_permission \( & [^,]+ , true \)", text):
        if di is not None and di < ci:
            raise Refuse("%s: data access before the privilege check" % where)
        if not re.search(r"if ! \w+ \. namespace_privilege \. check_option_value_permission \(", text):
            raise Refuse("%s: query-parameter guard of unknown shape" % where)
        return "GuardParam"
    if ". is_all ( )" in text and ". filter (" in text and "user_namespace_privilege ! ( req )" in text:
        if not re.search(r"\. filter \( \| \w+ \| \w+ \. check_option_value_permission \(", text):
            raise Refuse("%s: list filter of unknown shape" % where)
        return "GuardFilter"
    m = re.search(r"let (\w+) = (?:crate :: )?user_namespace_privilege ! \( req \) ;", text)
    if not m:
        raise Refuse("%s: privilege tokens in an unknown arrangement" % where)
    var = m.group(1)
    m2 = re.search(r"if ! %s \. (check_permission \( & [^{]*?\)|check_option_value_permission \( & [^{]*? , false \)) \{ (\S+)" % re.escape(var), text)
    if not m2:
        raise Refuse("%s: `if !%s.check_..(..) {` not found" % (where, var))
    if m2.group(2) not in ("user_no_namespace_permission", "return"):
        raise Refuse("%s: the refusal block does not start with user_no_namespace_permission!/return" % where)
    if di is not None and di < ci:
        raise Refuse("%s: data access before the privilege check" % where)
    return "GuardCheck"


def generate(repo):
    services, rr = console_tables.read_routes(repo)
    flat = actix_routes.flatten(services)
    res = Resolver(repo)
    # GuardIndex / GuardParam rely on this: every to_param(self, req) of the console request models puts the
    # session's privilege into the parameter
    for rel in ("src/console/model/config_model.rs", "src/console/model/naming_model.rs"):
        src = open(os.path.join(repo, rel)).read()
        for m in re.finditer(r"pub fn to_param\(self, req: &HttpRequest\)[^{]*\{", src):
            depth, j = 1, m.end()
            while depth and j < len(src):
                depth += {"{": 1, "}": -1}.get(src[j], 0)
                j += 1
            fb = src[m.end():j]
            if "user_namespace_privilege!(req)" not in fb or not re.search(r"\bnamespace_privilege\b\s*[,}]", fb):
                raise Refuse("%s: to_param(self, req) does not carry the session's namespace privilege into the parameter" % rel)
        if "pub fn to_param(self, req: &HttpRequest)" not in src:
            raise Refuse("%s: to_param(self, req: &HttpRequest) not found" % rel)
    rows = []
    for pattern, method, handler in flat:
        if not pattern.startswith(API_PREFIX):
            continue
        rel, name, d = res.resolve(handler, "src/console/api.rs")
        g = classify(rel, name, d, res.load(rel)[3])
        rows.append((pattern, method, "%s::%s" % (rel[len("src/"):-len(".rs")].replace("/", "::"), name), g))
    L = []
    w = L.append
    w("(** GENERATED by translators/guards.py on every run of the C18 check — do not edit.")
    w("    For every console API route: the handler function (resolved through the use declarations of")
    w("    src/console/api.rs) and the namespace-privilege guard idiom found in its body. *)")
    w("From RN Require Import Auth.Privilege.")
    w("Local Open Scope string_scope.")
    w("")
    w("Record endpoint := mkEp { ep_path : string; ep_method : string; ep_handler : string; ep_guard : guard }.")
    w("")
    w("Definition endpoint_guards : list endpoint := %s." % rp.coq_list(
        ["mkEp %s %s %s %s" % (coq_str(p), coq_str(m), coq_str(h), g) for p, m, h, g in rows]))
    return "\n".join(L) + "\n", rows


def main():
    here = os.path.dirname(os.path.dirname(os.path.abspath(__file__)))
    repo = sys.argv[1] if len(sys.argv) > 1 else os.path.join(os.path.dirname(here), "repo")
    try:
        text, rows = generate(repo)
    except Refuse as ex:
        print("REFUSED: %s" % ex, file=sys.stderr)
        sys.exit(3)
    changed = console_tables.write_if_changed(os.path.join(here, "coq", "Gen", "EndpointGuards.v"), text)
    from collections import Counter
    print("%s EndpointGuards.v: %s" % ("wrote" if changed else "unchanged", dict(Counter(r[3] for r in rows))))
    for r in rows:
        print("  %-8s %-55s %-12s %s" % (r[1], r[0], r[3], r[2]))


if __name__ == "__main__":
    main()
