#!/usr/bin/env python3
"""Translator for C16: regenerates coq/Gen/OpenApiTables.v and coq/Gen/GrpcTables.v from the Rust source.

Reads (relative to the repo root)
  src/common/constant.rs                  AUTHORIZATION_HEADER, ACCESS_TOKEN_HEADER
  src/openapi/middle/auth_middle.rs       IGNORE_PATH, API_PATH, R_NACOS_API_PATH, IGNORE_METRICS_PATH,
                                          which path the decision looks at, the decision expression
  src/main.rs                             the 8848 App builder chain; the gRPC handler registration calls
  src/web_config.rs + src/openapi/**, src/raft/network/mod.rs, src/console/api.rs
                                          route registrations reachable from app_config (auth enabled)
  src/grpc/handler/mod.rs                 request type constants, registrations, ignore_auth / is_cluster_request /
                                          ignore_active_err lists, the two refusal conditions of handle
  src/grpc/server.rs                      the two conditions of fill_token_session

Accepted source shapes (anything else raises Refuse = broken tie):
  * IGNORE_PATH: `{ [#[cfg_attr(..)]] let mut v = vec!["lit", ..]; [#[cfg(feature = "debug")] v.push("lit");]* v }`
    (the debug-only pushes are skipped: the pinned build and the harness do not enable that feature)
  * API_PATH / R_NACOS_API_PATH: `Regex::new(r"(?i)/w1/../wn/.*").unwrap()` (or `(?i)/(a|b)/.*`); nothing else
  * IGNORE_METRICS_PATH: `vec!["lit", ..]`
  * in ApiCheckAuthMiddleware::call:  `let path = request.path();`  (RawPath)  or
                                      `let path = request.match_info().as_str();`  (RoutedPath)
    and exactly this decision:
      let is_check_path = if enable_auth { (API_PATH.is_match(path) || R_NACOS_API_PATH.is_match(path))
                                           && !IGNORE_PATH.contains(&path) } else { true };
  * main(): `App::new().app_data(..)*.wrap(ApiCheckAuth::new(..)).wrap(middleware::Logger::default())
            .configure(app_config(..))`; `invoker.add_config_handler(..)`, `add_naming_handler`, `add_raft_handler`
  * route registrations: see actix_routes.py; `if !conf_data.enable_no_auth_console || conf_data.openapi_enable_auth`
    is decided with openapi_enable_auth = true
  * grpc: `pub(crate) const X_REQUEST: &str = "..";`, `self.add_handler(CONST, Box::new(..))` statements,
    `fn ignore_auth(&self, t: &str) -> bool { A.eq(t) || B.eq(t) .. }` (same for is_cluster_request,
    ignore_active_err), and the two textual conditions of `handle` / `fill_token_session` listed below.
"""
import os
import sys

sys.path.insert(0, os.path.dirname(os.path.abspath(__file__)))
import actix_routes  # noqa: E402
import rustparse as rp  # noqa: E402
from console_tables import const_table, read_app_chain, write_if_changed  # noqa: E402
from rustparse import Refuse, coq_str  # noqa: E402

ROUTE_FILES = [
    "src/web_config.rs", "src/openapi/mod.rs", "src/openapi/auth.rs", "src/openapi/backup.rs", "src/openapi/metrics.rs",
    "src/openapi/health.rs", "src/openapi/mcp/mod.rs", "src/openapi/mcp_api/mod.rs", "src/openapi/config/mod.rs",
    "src/openapi/naming/mod.rs", "src/openapi/naming/instance.rs", "src/openapi/naming/operator.rs",
    "src/openapi/naming/catalog.rs", "src/openapi/naming/service.rs", "src/raft/network/mod.rs", "src/console/api.rs",
]

EXPECT_IS_CHECK = ("let is_check_path = if enable_auth { ( API_PATH . is_match ( path ) || R_NACOS_API_PATH . is_match ( path ) ) "
                   "&& ! IGNORE_PATH . contains ( & path ) } else { true }")
EXPECT_HANDLE_AUTH = ("self . app . sys_config . openapi_enable_auth && ! self . ignore_auth ( url ) "
                      "&& request_meta . token_session . is_none ( )")
EXPECT_HANDLE_CLUSTER = ("! self . app . sys_config . cluster_token . is_empty ( ) && self . is_cluster_request ( url ) "
                         "&& ! request_meta . cluster_token_is_valid")
EXPECT_FILL_AUTH = "self . app . sys_config . openapi_enable_auth && ! token . is_empty ( )"
EXPECT_FILL_CLUSTER = "! self . app . sys_config . cluster_token . is_empty ( )"


def txt(toks):
    return " ".join(('"%s"' % t.v) if t.k == "str" else t.v for t in toks)


def find_stmt(body, start_words):
    """the statement (tokens up to the ';' at depth 0) that starts with the given words; exactly one"""
    n = len(start_words)
    hits = [i for i in range(len(body) - n) if [t.v for t in body[i:i + n]] == start_words
            and (i == 0 or (body[i - 1].k == "p" and body[i - 1].v in (";", "{", "}")))]
    if len(hits) != 1:
        raise Refuse("statement `%s ..` found %d times" % (" ".join(start_words), len(hits)))
    i = hits[0]
    j = i
    while j < len(body):
        if body[j].k == "p" and body[j].v in ("(", "[", "{"):
            j = rp.match_close(body, j) + 1
            continue
        if body[j].k == "p" and body[j].v == ";":
            break
        j += 1
    return body[i:j]


def read_auth_middle(repo):
    rel = "src/openapi/middle/auth_middle.rs"
    f = rp.File(os.path.join(repo, rel), rel)
    statics = f.find_static_refs()
    want = {"IGNORE_PATH", "API_PATH", "R_NACOS_API_PATH", "IGNORE_METRICS_PATH"}
    if set(statics) != want:
        raise Refuse("%s: static refs are %s, expected exactly %s" % (rel, sorted(statics), sorted(want)))
    # IGNORE_PATH block
    ex = statics["IGNORE_PATH"][1]
    if not (ex and ex[0].v == "{" and rp.match_close(ex, 0) == len(ex) - 1):
        raise Refuse("%s: IGNORE_PATH is not a block expression" % rel)
    ignore, skipped = None, []
    var = None
    stmts = rp.split_statements(ex[1:-1], rel + ":IGNORE_PATH")
    for k, st in enumerate(stmts):
        attr = None
        if st[0] == "attr":
            attr = "".join(t.v if t.k != "str" else '"%s"' % t.v for t in st[1])
            st = st[2]
        toks = st[1]
        t = [x.v for x in toks]
        if t[:3] == ["let", "mut", t[2] if len(t) > 2 else ""] and len(t) > 4 and t[3] == "=":
            if attr is not None and not attr.startswith("cfg_attr("):
                raise Refuse("%s: IGNORE_PATH: attribute #[%s] on the let" % (rel, attr))
            e = rp.parse_expr(toks[4:], rel + ":IGNORE_PATH")
            if not (e[0] == "macro" and e[1] == "vec" and all(x[0] == "str" for x in e[2])):
                raise Refuse("%s: IGNORE_PATH: not a vec of string literals" % rel)
            var = t[2]
            ignore = [x[1] for x in e[2]]
        elif var and t[:3] == [var, ".", "push"]:
            if attr != 'cfg(feature="debug")':
                raise Refuse("%s: IGNORE_PATH: push outside #[cfg(feature = \"debug\")]" % rel)
            skipped.append(txt(toks))
        elif var and t == [var] and k == len(stmts) - 1:
            pass
        else:
            raise Refuse("%s: IGNORE_PATH: unexpected statement `%s`" % (rel, txt(toks)[:80]))
    if ignore is None:
        raise Refuse("%s: IGNORE_PATH: no `let mut v = vec![..]`" % rel)

    def regex_lit(name):
        e = rp.parse_expr(statics[name][1], rel + ":" + name)
        if not (e[0] == "method" and e[2] == "unwrap" and e[1][0] == "call" and e[1][1] == ("path", ["Regex", "new"])
                and len(e[1][2]) == 1 and e[1][2][0][0] == "str"):
            raise Refuse("%s: %s is not Regex::new(\"..\").unwrap()" % (rel, name))
        return e[1][2][0][1]
    api_lit = regex_lit("API_PATH")
    rn_lit = regex_lit("R_NACOS_API_PATH")
    e = rp.parse_expr(statics["IGNORE_METRICS_PATH"][1], rel + ":IGNORE_METRICS_PATH")
    if not (e[0] == "macro" and e[1] == "vec" and all(x[0] == "str" for x in e[2])):
        raise Refuse("%s: IGNORE_METRICS_PATH is not a vec of string literals" % rel)
    # the decision in fn call
    calls = [d for d in f.find_fns().get("call", [])]
    if len(calls) != 1:
        raise Refuse("%s: expected exactly one fn call" % rel)
    body = calls[0]["body"]
    path_stmt = txt(find_stmt(body, ["let", "path", "="]))
    if path_stmt == "let path = request . path ( )":
        source = "RawPath"
    elif path_stmt == "let path = request . match_info ( ) . as_str ( )":
        source = "RoutedPath"
    else:
        raise Refuse("%s: `%s` is neither request.path() nor request.match_info().as_str()" % (rel, path_stmt))
    ic_stmt = find_stmt(body, ["let", "is_check_path", "="])
    ic = txt(ic_stmt)
    if ic != EXPECT_IS_CHECK:
        # the decision extracted into a helper function of the same file (one tail expression): inline it
        inl = rp.inline_call(ic_stmt, f.find_fns(), rel)
        if inl is not None:
            ic = txt(inl)
    if ic != EXPECT_IS_CHECK:
        raise Refuse("%s: the is_check_path decision changed: `%s`" % (rel, ic))
    return dict(ignore=ignore, skipped=skipped, api_lit=api_lit, rn_lit=rn_lit,
                api_words=rp.regex_slash_words(api_lit, rel + ":API_PATH"),
                rn_words=rp.regex_slash_words(rn_lit, rel + ":R_NACOS_API_PATH"),
                ignore_metrics=[x[1] for x in e[2]], source=source)


def decide_auth_enabled(cond):
    """conditions of app_config under openapi_enable_auth = true (enable_no_auth_console unknown)"""
    c = cond.replace(" ", "")
    if c == "!conf_data.enable_no_auth_console||conf_data.openapi_enable_auth":
        return True
    return None


def read_routes(repo):
    files = [rp.File(os.path.join(repo, p), p) for p in ROUTE_FILES]
    cf = rp.File(os.path.join(repo, "src/openapi/constant.rs"), "src/openapi/constant.rs")
    consts = {}
    for name, v in cf.find_consts().items():
        if len(v) == 1 and v[0].k == "str":
            consts[name] = v[0].v
    rr = actix_routes.RouteReader(files, decide=decide_auth_enabled, consts=consts)
    out = []
    rr.closure_fn("app_config", out)
    return out, rr


def read_main(repo):
    wraps, configures = read_app_chain(repo, "main")
    allowed = {"ApiCheckAuth::new(source_app_data)", "middleware::Logger::default()"}
    if "ApiCheckAuth::new(source_app_data)" not in wraps or not set(wraps) <= allowed:
        raise Refuse("src/main.rs:main: middleware stack %s is not ApiCheckAuth + Logger" % wraps)
    if configures != ["app_config(app_config_shard)"]:
        raise Refuse("src/main.rs:main: configure(%s) is not exactly app_config(..)" % configures)
    f = rp.File(os.path.join(repo, "src/main.rs"), "src/main.rs")
    body = f.find_fns()["main"][0]["body"]
    t = txt(body)
    calls = []
    import re
    for m in re.finditer(r"invoker \. (add_[a-z_]+) \(", t):
        calls.append(m.group(1))
    if "let mut invoker = InvokerHandler :: new ( app_data . clone ( ) )" not in t:
        raise Refuse("src/main.rs:main: `let mut invoker = InvokerHandler::new(app_data.clone())` not found")
    return calls


def parse_or_list(body, fn_name, rel, consts):
    """`A.eq(t) || B.eq(t) || ..` -> [A, B, ..]"""
    t = [x.v for x in body]
    out = []
    i = 0
    while True:
        if not (i + 5 < len(t) + 1 and t[i] in consts and t[i + 1:i + 6] == [".", "eq", "(", "t", ")"]):
            raise Refuse("%s:%s: not of the form CONST.eq(t) || ..: `%s`" % (rel, fn_name, " ".join(t)[:120]))
        out.append(t[i])
        i += 6
        if i == len(t):
            return out
        if t[i] != "||":
            raise Refuse("%s:%s: expected || at `%s`" % (rel, fn_name, " ".join(t[i:i + 6])))
        i += 1


def read_grpc(repo, main_calls):
    rel = "src/grpc/handler/mod.rs"
    f = rp.File(os.path.join(repo, rel), rel)
    names = [n for n in f.find_consts() if n.endswith("_REQUEST") or n == "CLUSTER_TOKEN"]
    consts = const_table(f, names)
    impl = rp.fns_in(f.find_impl("InvokerHandler"))

    def regs(fn):
        ds = impl.get(fn, [])
        if len(ds) != 1:
            raise Refuse("%s: InvokerHandler::%s not found" % (rel, fn))
        out = []
        body = ds[0]["body"]
        t = [x.v for x in body]
        for i in range(len(t) - 3):
            if t[i:i + 3] == [".", "add_handler", "("]:
                c = t[i + 3]
                if c not in consts or t[i + 4] != ",":
                    raise Refuse("%s:%s: add_handler with a non-constant type `%s`" % (rel, fn, c))
                out.append(c)
        return out
    registered = regs("new")
    for c in main_calls:
        if c not in ("add_config_handler", "add_naming_handler", "add_raft_handler"):
            raise Refuse("src/main.rs: unknown invoker call %s" % c)
        registered += regs(c)
    lists = {}
    for fn in ("ignore_auth", "is_cluster_request", "ignore_active_err"):
        ds = impl.get(fn, [])
        if len(ds) != 1:
            raise Refuse("%s: InvokerHandler::%s not found" % (rel, fn))
        lists[fn] = parse_or_list(ds[0]["body"], fn, rel, consts)
    # the refusal conditions of handle (impl PayloadHandler for InvokerHandler)
    handles = [d for d in f.find_fns().get("handle", [])]
    hb = None
    for d in handles:
        if "SERVER_CHECK_REQUEST" in [x.v for x in d["body"]]:
            hb = d["body"]
    if hb is None:
        raise Refuse("%s: handle of InvokerHandler not found" % rel)
    t = txt(hb)
    seq = ("if SERVER_CHECK_REQUEST . eq ( url ) {", "if " + EXPECT_HANDLE_AUTH + " {", "} else if " + EXPECT_HANDLE_CLUSTER + " {",
           "if let Some ( handler ) = self . match_handler ( url ) {")
    pos = 0
    for s in seq:
        k = t.find(s, pos)
        if k < 0:
            raise Refuse("%s:handle: expected `%s` (in this order) — the refusal logic changed" % (rel, s[:90]))
        pos = k + len(s)
    if 'HandlerResult :: error ( 403u16' not in t or 'HandlerResult :: error ( 500u16' not in t:
        raise Refuse("%s:handle: the 403 / 500 refusals are gone" % rel)
    # fill_token_session
    rel2 = "src/grpc/server.rs"
    f2 = rp.File(os.path.join(repo, rel2), rel2)
    fb = rp.fns_in(f2.find_impl("RequestServerImpl")).get("fill_token_session", [])
    if len(fb) != 1:
        raise Refuse("%s: fill_token_session not found" % rel2)
    t2 = txt(fb[0]["body"])
    seq2 = ("meta . headers . get ( ACCESS_TOKEN_HEADER )", "meta . headers . get ( AUTHORIZATION_HEADER )",
            "if " + EXPECT_FILL_AUTH + " {", "request_meta . token_session = Some ( session )",
            "} else if " + EXPECT_FILL_CLUSTER + " {", "e . headers . get ( CLUSTER_TOKEN )",
            "request_meta . cluster_token_is_valid = token == self . app . sys_config . cluster_token . as_ref ( )")
    pos = 0
    for s in seq2:
        k = t2.find(s, pos)
        if k < 0:
            raise Refuse("%s:fill_token_session: expected `%s` (in this order)" % (rel2, s[:90]))
        pos = k + len(s)
    return dict(consts=consts, registered=registered, lists=lists)


def generate(repo):
    cf = rp.File(os.path.join(repo, "src/common/constant.rs"), "src/common/constant.rs")
    hdr = const_table(cf, ["AUTHORIZATION_HEADER", "ACCESS_TOKEN_HEADER"])
    am = read_auth_middle(repo)
    main_calls = read_main(repo)
    services, rr = read_routes(repo)
    grpc = read_grpc(repo, main_calls)
    L = []
    w = L.append
    w("(** GENERATED by translators/openapi_tables.py on every run of the C16 check — do not edit.")
    w("    Sources: src/openapi/middle/auth_middle.rs, src/main.rs, src/common/constant.rs and the route functions")
    w("    %s. *)" % ", ".join(rr.visited))
    w("From RN Require Import Auth.Route.")
    w("Local Open Scope string_scope.")
    w("")
    w("Definition AUTHORIZATION_HEADER : string := %s." % coq_str(hdr["AUTHORIZATION_HEADER"]))
    w("Definition ACCESS_TOKEN_HEADER : string := %s." % coq_str(hdr["ACCESS_TOKEN_HEADER"]))
    w("Definition IGNORE_PATH : list string := %s." % rp.coq_list([coq_str(x) for x in am["ignore"]]))
    w("(* API_PATH = %s *)" % am["api_lit"].replace("*)", "* )"))
    w("Definition OPENAPI_API_PATH_WORDS : list string := [%s]." % "; ".join(coq_str(x) for x in am["api_words"]))
    w("(* R_NACOS_API_PATH = %s *)" % am["rn_lit"].replace("*)", "* )"))
    w("Definition OPENAPI_RNACOS_PATH_WORDS : list string := [%s]." % "; ".join(coq_str(x) for x in am["rn_words"]))
    w("Definition IGNORE_METRICS_PATH : list string := [%s]." % "; ".join(coq_str(x) for x in am["ignore_metrics"]))
    w("")
    w("(** which path ApiCheckAuthMiddleware::call looks at: the raw request path (request.path()) or the")
    w("    percent-decoded path the router matches (request.match_info().as_str()) *)")
    w("Inductive path_source := RawPath | RoutedPath.")
    w("Definition auth_path_source : path_source := %s." % am["source"])
    w("")
    w("(** app_config with openapi_enable_auth = true: services in registration order *)")
    w("Definition openapi_services : list service := %s." % actix_routes.services_coq(services))
    text1 = "\n".join(L) + "\n"
    L = []
    w = L.append
    w("(** GENERATED by translators/openapi_tables.py on every run of the C16 check — do not edit.")
    w("    Sources: src/grpc/handler/mod.rs, src/grpc/server.rs, src/main.rs. *)")
    w("From Coq Require Import List String.")
    w("Import ListNotations.")
    w("Local Open Scope string_scope.")
    w("")
    for n, v in grpc["consts"].items():
        w("Definition %s : string := %s." % (n, coq_str(v)))
    w("")
    w("(** InvokerHandler::new + the add_*_handler calls of main(), in registration order *)")
    w("Definition grpc_registered : list string := [%s]." % "; ".join(grpc["registered"]))
    w("Definition grpc_ignore_auth : list string := [%s]." % "; ".join(grpc["lists"]["ignore_auth"]))
    w("Definition grpc_cluster_request : list string := [%s]." % "; ".join(grpc["lists"]["is_cluster_request"]))
    w("Definition grpc_ignore_active_err : list string := [%s]." % "; ".join(grpc["lists"]["ignore_active_err"]))
    text2 = "\n".join(L) + "\n"
    return text1, text2, dict(auth=am, services=services, visited=rr.visited, skipped=rr.skipped + am["skipped"], grpc=grpc,
                              headers=hdr)


def main():
    here = os.path.dirname(os.path.dirname(os.path.abspath(__file__)))
    repo = sys.argv[1] if len(sys.argv) > 1 else os.path.join(os.path.dirname(here), "repo")
    try:
        t1, t2, info = generate(repo)
    except Refuse as ex:
        print("REFUSED: %s" % ex, file=sys.stderr)
        sys.exit(3)
    c1 = write_if_changed(os.path.join(here, "coq", "Gen", "OpenApiTables.v"), t1)
    c2 = write_if_changed(os.path.join(here, "coq", "Gen", "GrpcTables.v"), t2)
    print("%s OpenApiTables.v, %s GrpcTables.v (%d services, %d routes, %d grpc types, path source %s)"
          % ("wrote" if c1 else "unchanged", "wrote" if c2 else "unchanged", len(info["services"]),
             len(actix_routes.flatten(info["services"])), len(info["grpc"]["registered"]), info["auth"]["source"]))


if __name__ == "__main__":
    main()
