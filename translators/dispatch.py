#!/usr/bin/env python3
"""dispatch.py — transcribe the three `match req { ... }` dispatches of
src/raft/filestore/raftdata.rs (apply_log_to_state_machine = leader, do_send_log = follower,
load_log = start-up replay) into coq/Gen/DispatchTables.v.

One row per match arm:
    (variant, binders, preparation, target actor, message constructor, field wiring, mode, response)
Anything that is not one of the literal shapes below is REFUSED (new variant, wildcard arm, extra
statement, different target, different field wiring, different error handling).

usage: dispatch.py <repo> <out.v> [--json out.json]
"""
import json
import os
import sys

sys.path.insert(0, os.path.dirname(os.path.abspath(__file__)))
from rust_lex import Refuse, lex, fn_body, match_close, split_top, find_seq, j  # noqa: E402

FUNCS = [("leader", "apply_log_to_state_machine"), ("follower", "do_send_log"), ("replay", "load_log")]

ACTORS = {
    "index_manager": "AIndex",
    "self . sequence_db": "ASequence",
    "self . config": "AConfig",
    "self . table": "ATable",
    "self . namespace": "ANamespace",
    "self . mcp_manager": "AMcp",
    "self . naming_actor": "ANaming",
    "self . direct_cache_manager": "ACache",
}

VARIANTS = ["NodeAddr", "Members", "ConfigSet", "ConfigFullValue", "ConfigRemove", "TableManagerReq",
            "NamespaceReq", "SequenceReq", "McpReq", "NamingReq", "CacheReq"]

# the literal preparation block of the ConfigFullValue arm (the only fallible preparation: `?`)
DECODE_FULL = [
    "let key = String :: from_utf8_lossy ( & key ) . to_string ( )",
    "let key : ConfigKey = ( & key as & str ) . into ( )",
    "let value_do = ConfigValueDO :: from_bytes ( & value ) ?",
    "let config_value : ConfigValue = value_do . into ( )",
]

RESPONSES = {
    "Ok ( ClientResponse :: Success )": ("RSuccess", None),
    "Ok ( ClientResponse :: SequenceResp { resp : r } )": ("RSequenceResp", "r"),
    "Ok ( ClientResponse :: McpResp { resp } )": ("RMcpResp", "resp"),
    "Ok ( ClientResponse :: NamingResp { resp } )": ("RNamingResp", "resp"),
    "Ok ( ClientResponse :: CacheResp { resp } )": ("RCacheResp", "resp"),
}


def parse_enum_variants(repo):
    src = open(os.path.join(repo, "src/raft/store/mod.rs")).read()
    toks = lex(src)
    i = find_seq(toks, ["pub", "enum", "ClientRequest", "{"])
    if i < 0:
        raise Refuse("store/mod.rs: `pub enum ClientRequest {` not found")
    e = match_close(toks, i + 3)
    body = toks[i + 4:e]
    out = []
    for part in split_top(body, ","):
        if not part:
            continue
        name = part[0]
        if len(part) == 1:
            out.append((name, "unit", []))
        elif part[1] == "{":
            fields = [p[0] for p in split_top(part[2:match_close(part, 1)], ",") if p]
            out.append((name, "struct", fields))
        elif part[1] == "(":
            n = len([p for p in split_top(part[2:match_close(part, 1)], ",") if p])
            out.append((name, "tuple", [str(k) for k in range(n)]))
        else:
            raise Refuse("ClientRequest variant %s: unknown shape" % name)
    return out


def parse_pattern(ptoks, where):
    """tokens between `ClientRequest :: Name` and `=>`: returns (kind, [(field, local)])"""
    if not ptoks:
        return "unit", []
    if ptoks[0] == "{":
        if match_close(ptoks, 0) != len(ptoks) - 1:
            raise Refuse("%s: pattern shape" % where)
        binds = []
        for p in split_top(ptoks[1:-1], ","):
            if not p:
                continue
            if len(p) == 1:
                binds.append((p[0], p[0]))
            elif len(p) == 3 and p[1] == ":":
                binds.append((p[0], p[2]))
            else:
                raise Refuse("%s: pattern field %r not accepted (`..`, nested patterns, refs are refused)" % (where, j(p)))
        return "struct", binds
    if ptoks[0] == "(":
        if match_close(ptoks, 0) != len(ptoks) - 1:
            raise Refuse("%s: pattern shape" % where)
        binds = []
        for k, p in enumerate(split_top(ptoks[1:-1], ",")):
            if len(p) != 1:
                raise Refuse("%s: tuple pattern element %r not accepted" % (where, j(p)))
            binds.append((str(k), p[0]))
        return "tuple", binds
    raise Refuse("%s: pattern %r not accepted" % (where, j(ptoks)))


def parse_struct_fields(ftoks, where):
    """`a , b : expr , ...` -> [(field, source expression)]"""
    out = []
    for p in split_top(ftoks, ","):
        if not p:
            continue
        if len(p) == 1:
            out.append((p[0], p[0]))
        elif len(p) >= 3 and p[1] == ":":
            out.append((p[0], j(p[2:])))
        else:
            raise Refuse("%s: struct field %r" % (where, j(p)))
    return out


def parse_message(mtoks, cmd_def, where):
    """message expression -> (ctor, wiring)"""
    s = j(mtoks)
    if s == "req":
        return "CPass", [("self", "req")]
    if s == "cmd":
        if cmd_def is None:
            raise Refuse("%s: `cmd` sent but not built in this arm" % where)
        return cmd_def
    if mtoks[:3] == ["RaftIndexRequest", "::", "AddNodeAddr"] and mtoks[3] == "(" and match_close(mtoks, 3) == len(mtoks) - 1:
        args = [j(p) for p in split_top(mtoks[4:-1], ",") if p]
        return "CAddNodeAddr", [(str(k), a) for k, a in enumerate(args)]
    if mtoks[:3] == ["RaftIndexRequest", "::", "SaveMember"] and mtoks[3] == "{" and match_close(mtoks, 3) == len(mtoks) - 1:
        return "CSaveMember", parse_struct_fields(mtoks[4:-1], where)
    raise Refuse("%s: message expression %r is not one of the accepted constructors" % (where, s))


def parse_send(stoks, cmd_def, where):
    """a statement that sends: returns dict(target, ctor, wiring, mode, bound) or None"""
    bound = None
    t = stoks
    if t[:1] == ["let"] and len(t) > 3 and t[2] == "=":
        bound = t[1]
        t = t[3:]
    # target
    target = None
    for key in ACTORS:
        kt = key.split(" ")
        if t[:len(kt)] == kt and t[len(kt)] == ".":
            target = key
            t = t[len(kt) + 1:]
            break
    if target is None:
        return None
    if t[0] not in ("send", "do_send") or t[1] != "(":
        raise Refuse("%s: target %s used with %r (only send/do_send are accepted)" % (where, target, t[0]))
    e = match_close(t, 1)
    ctor, wiring = parse_message(t[2:e], cmd_def, where)
    rest = j(t[e + 1:])
    if t[0] == "do_send":
        if rest != "" or bound:
            raise Refuse("%s: do_send followed by %r" % (where, rest))
        mode = "MDoSend"
    elif rest == ". await ? ?":
        mode = "MAwaitErr"
    elif rest == ". await . ok ( )":
        if bound:
            raise Refuse("%s: result of .ok() bound" % where)
        mode = "MAwaitOk"
    else:
        raise Refuse("%s: send(...) followed by %r (accepted: `.await??`, `.await.ok()`)" % (where, rest))
    return dict(target=ACTORS[target], ctor=ctor, wiring=wiring, mode=mode, bound=bound)


FILE_TOKS = []      # all tokens of raftdata.rs (set by translate): helper functions are looked up here


def expand_decode_helper(stmts, where):
    """the extract-function form of the ConfigFullValue arm:
         let cmd = Self::F(&key, &value, X)?;
       with   fn F(key: &[u8], value: &[u8], L: Option<u64>) -> anyhow::Result<ConfigRaftCmd> {
                  <the four statements of DECODE_FULL, with `key` / `value` for `&key` / `&value`>
                  Ok(ConfigRaftCmd::SetFullValue { key, value: config_value, last_id[: L] })  }
       is rewritten into the literal block + `let cmd = ConfigRaftCmd::SetFullValue {..}`; any other helper is refused."""
    if not stmts:
        return stmts
    s = stmts[0]
    if s[:5] != ["let", "cmd", "=", "Self", "::"] or len(s) < 8 or s[6] != "(" or s[-1] != "?" or match_close(s, 6) != len(s) - 2:
        return stmts
    fname = s[5]
    args = [j(a) for a in split_top(s[7:-2], ",") if a]
    if len(args) != 3 or args[0] != "& key" or args[1] != "& value":
        raise Refuse("%s: helper call `%s` with unexpected arguments" % (where, j(s)))
    try:
        params, ret, body = fn_body(FILE_TOKS, fname)
    except Refuse:
        raise Refuse("%s: helper %s not found" % (where, fname))
    ps = [a for a in split_top(params, ",") if a]
    if len(ps) != 3 or [a[0] for a in ps[:2]] != ["key", "value"] or j(ps[0][1:]) != ": & [ u8 ]" or j(ps[1][1:]) != ": & [ u8 ]":
        raise Refuse("%s: helper %s has unexpected parameters `%s`" % (where, fname, j(params)))
    lid = ps[2][0]
    hs = split_top(body, ";")
    htail = j(hs[-1])
    hst = [j(x) for x in hs[:-1]]
    norm = [x.replace("from_utf8_lossy ( key )", "from_utf8_lossy ( & key )").replace("from_bytes ( value )", "from_bytes ( & value )") for x in hst]
    want_tail = ["Ok ( ConfigRaftCmd :: SetFullValue { key , value : config_value , last_id : %s , } )" % lid,
                 "Ok ( ConfigRaftCmd :: SetFullValue { key , value : config_value , last_id : %s } )" % lid,
                 "Ok ( ConfigRaftCmd :: SetFullValue { key , value : config_value , %s , } )" % lid,
                 "Ok ( ConfigRaftCmd :: SetFullValue { key , value : config_value , %s } )" % lid]
    if norm != DECODE_FULL or htail not in want_tail or (lid != "last_id" and " last_id : " not in htail):
        raise Refuse("%s: helper %s is not the literal decode block + SetFullValue" % (where, fname))
    block = [lex(x) for x in DECODE_FULL]
    cmd = lex("let cmd = ConfigRaftCmd :: SetFullValue { key , value : config_value , last_id : %s }" % args[2])
    return block + [cmd] + stmts[1:]


def parse_arm(name, ptoks, btoks, path):
    where = "%s/%s" % (path, name)
    kind, binds = parse_pattern(ptoks, where)
    stmts = split_top(btoks, ";")
    tail = stmts[-1]
    stmts = [s for s in stmts[:-1]]
    stmts = expand_decode_helper(stmts, where)
    if any(len(s) == 0 for s in stmts):
        raise Refuse("%s: empty statement" % where)
    prep = "PNone"
    cmd_def = None
    sends = []
    k = 0
    # optional literal decode block
    if [j(s) for s in stmts[:4]] == DECODE_FULL:
        prep = "PDecodeFull"
        k = 4
    # optional `let cmd = ConfigRaftCmd::X { ... }`
    if k < len(stmts) and stmts[k][:5] == ["let", "cmd", "=", "ConfigRaftCmd", "::"]:
        s = stmts[k]
        ctor = s[5]
        if s[6] != "{" or match_close(s, 6) != len(s) - 1:
            raise Refuse("%s: `let cmd = ConfigRaftCmd::%s` shape" % (where, ctor))
        cm = {"ConfigAdd": "CConfigAdd", "SetFullValue": "CSetFullValue", "ConfigRemove": "CConfigRemove"}
        if ctor not in cm:
            raise Refuse("%s: unknown ConfigRaftCmd constructor %s" % (where, ctor))
        cmd_def = (cm[ctor], parse_struct_fields(s[7:-1], where))
        k += 1
    for s in stmts[k:]:
        snd = parse_send(s, cmd_def, where)
        if snd is None:
            raise Refuse("%s: statement not accepted: `%s`" % (where, j(s)))
        sends.append(snd)
    if len(sends) != 1:
        raise Refuse("%s: expected exactly one send per arm, found %d" % (where, len(sends)))
    snd = sends[0]
    # tail (response)
    resp = "RNone"
    if path == "leader":
        ts = j(tail)
        if ts not in RESPONSES:
            raise Refuse("%s: tail expression `%s` is not an accepted response" % (where, ts))
        resp, var = RESPONSES[ts]
        if var is not None and snd["bound"] != var:
            raise Refuse("%s: response uses `%s` but the send binds `%s`" % (where, var, snd["bound"]))
        if var is None and snd["bound"] is not None:
            raise Refuse("%s: bound result `%s` unused" % (where, snd["bound"]))
    else:
        if tail:
            raise Refuse("%s: unexpected tail expression `%s`" % (where, j(tail)))
        if snd["bound"]:
            raise Refuse("%s: unexpected binding" % where)
    # every source name used in the wiring must be a pattern binder or produced by the decode block
    avail = set(l for _, l in binds)
    if prep == "PDecodeFull":
        if not {"key", "value"} <= avail:
            raise Refuse("%s: decode block needs binders key,value" % where)
        avail |= {"config_value"}
    for f, src in snd["wiring"]:
        root = src.split(" ")[0]
        if root not in avail and src not in ("None",):
            raise Refuse("%s: wiring %s <- `%s` uses an unknown name" % (where, f, src))
    return dict(variant=name, kind=kind, binders=binds, prep=prep, actor=snd["target"], ctor=snd["ctor"],
                wiring=snd["wiring"], mode=snd["mode"], resp=resp)


def parse_function(toks, path, fname):
    params, ret, body = fn_body(toks, fname)
    i = find_seq(body, ["match", "req", "{"])
    if i < 0:
        raise Refuse("%s: `match req {` not found" % fname)
    e = match_close(body, i + 2)
    before = j(body[:i])
    after = j(body[e + 1:])
    if before != "":
        raise Refuse("%s: statements before the match are not accepted: `%s`" % (fname, before))
    want_after = {"leader": "", "follower": "; Ok ( ( ) )", "replay": "Ok ( ( ) )"}[path]
    if after != want_after:
        raise Refuse("%s: code after the match is `%s`, expected `%s`" % (fname, after, want_after))
    arms = []
    t = body[i + 3:e]
    p = 0
    while p < len(t):
        if t[p:p + 2] != ["ClientRequest", "::"]:
            raise Refuse("%s: arm does not start with ClientRequest:: (wildcards/guards are refused): `%s`" % (fname, j(t[p:p + 6])))
        name = t[p + 2]
        q = p + 3
        while t[q] != "=>":
            if t[q] in ("{", "("):
                q = match_close(t, q)
            elif t[q] in ("if", "|"):
                raise Refuse("%s/%s: guards and or-patterns are refused" % (fname, name))
            q += 1
        ptoks = t[p + 3:q]
        if t[q + 1] != "{":
            raise Refuse("%s/%s: arm body must be a block" % (fname, name))
        be = match_close(t, q + 1)
        arms.append(parse_arm(name, ptoks, t[q + 2:be], path))
        p = be + 1
        if p < len(t) and t[p] == ",":
            p += 1
    return arms


def coq_str(s):
    return '"' + s.replace('"', '""') + '"'


def coq_pairs(ps):
    return "[" + "; ".join("(%s, %s)" % (coq_str(a), coq_str(b)) for a, b in ps) + "]"


def row_coq(r):
    return ("  mkRow V%s %s %s %s %s %s %s %s" % (
        r["variant"], coq_pairs(r["binders"]), r["prep"], r["actor"], r["ctor"], coq_pairs(r["wiring"]),
        r["mode"], r["resp"]))


def translate(repo):
    path = os.path.join(repo, "src/raft/filestore/raftdata.rs")
    toks = lex(open(path).read())
    FILE_TOKS[:] = toks
    enum = parse_enum_variants(repo)
    names = [n for n, _, _ in enum]
    if sorted(names) != sorted(VARIANTS):
        raise Refuse("enum ClientRequest has variants %s; the model knows %s" % (names, VARIANTS))
    tables = {}
    for pth, fname in FUNCS:
        arms = parse_function(toks, pth, fname)
        got = [a["variant"] for a in arms]
        if sorted(got) != sorted(names) or len(got) != len(set(got)):
            raise Refuse("%s: arms %s do not cover enum ClientRequest %s exactly once" % (fname, got, names))
        # binders must name real fields of the variant
        for a in arms:
            kind, fields = [(k, f) for n, k, f in enum if n == a["variant"]][0]
            if kind != a["kind"] or [f for f, _ in a["binders"]] != fields:
                raise Refuse("%s/%s: pattern binds %s, enum declares %s" % (fname, a["variant"], a["binders"], fields))
        tables[pth] = arms
    return enum, tables


def render(enum, tables):
    out = ["(** GENERATED by translators/dispatch.py from src/raft/filestore/raftdata.rs and",
           "    src/raft/store/mod.rs — do not edit. *)",
           "From Coq Require Import List String.", "From RN Require Import SM.DispatchTypes.",
           "Import ListNotations.", "Local Open Scope string_scope.", "",
           "(** enum ClientRequest, in declaration order *)",
           "Definition enum_variants : list variant :=",
           "  [" + "; ".join("V" + n for n, _, _ in enum) + "].", ""]
    for pth, fname in FUNCS:
        out.append("(** %s  (fn %s) *)" % (pth, fname))
        out.append("Definition %s_table : list row := [" % pth)
        out.append(";\n".join(row_coq(r) for r in tables[pth]))
        out.append("].\n")
    return "\n".join(out)


def main():
    repo, outp = sys.argv[1], sys.argv[2]
    try:
        enum, tables = translate(repo)
    except Refuse as ex:
        print("REFUSED: %s" % ex)
        sys.exit(3)
    text = render(enum, tables)
    if not os.path.exists(outp) or open(outp).read() != text:
        os.makedirs(os.path.dirname(outp), exist_ok=True)
        with open(outp, "w") as f:
            f.write(text)
    if "--json" in sys.argv:
        with open(sys.argv[sys.argv.index("--json") + 1], "w") as f:
            json.dump({"enum": enum, "tables": tables}, f, indent=1)
    print("ok: %d variants x 3 tables" % len(enum))


if __name__ == "__main__":
    main()
