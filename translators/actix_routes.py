"""Reads actix-web route registrations (the builder DSL used by r-nacos) from Rust source.

Accepted shapes (everything else is refused):

  fn NAME(config: &mut [web::]ServiceConfig) { STMT* }
  STMT :=  config.service(S).service(S)... ;           (any number of chained .service)
        |  OTHER_FN(config);                            (another configuration function, resolved by its
                                                         last path segment among the loaded files)
        |  #[cfg(feature = "debug")] STMT               (skipped: the harness and the pinned build do not
                                                         enable that feature; any other attribute is refused)
        |  if COND { STMT* } else { STMT* }             (COND decided by the caller-supplied `decide`)
        |  let NAME = S;   /  let NAME = NAME.service(S)...;   (a local binding, later used as a service)
  S    :=  web::scope("PREFIX").service(S)...           (also the bare `scope(..)`)
        |  web::resource("PATTERN").route(R)...         (PATTERN: a literal or a string constant of
                                                         src/openapi/constant.rs)
        |  IDENT                                        (a local binding, or a handler fn carrying
                                                         #[actix_web::get("PATTERN")] / #[get("PATTERN")],
                                                         or post/put/delete/patch/head)
  R    :=  web::get().to(H) | web::post().to(H) | web::put().to(H) | web::delete().to(H)
        |  web::patch().to(H) | web::head().to(H)
  H    :=  a path (handler function)

Patterns: literal text with single dynamic segments `{name}` (each between '/' and '/' or the end) and
optionally one tail segment `{name:.*}` at the end; other dynamic segments (custom regexes) are refused.
Inside a scope a resource pattern without leading '/' gets one (actix does the same), the empty pattern
stays empty (it matches the scope prefix itself).
Result: ordered list of services
    ("scope", prefix, [("resource", pattern, [(METHOD, handler)]) ...])
    ("resource", pattern, [(METHOD, handler)])
    ("guarded", pattern, [(METHOD, handler)])       (attribute-macro handler: the method is a resource guard)
"""
import re

from rustparse import Refuse, parse_expr, show, split_statements

METHODS = {"get": "GET", "post": "POST", "put": "PUT", "delete": "DELETE", "patch": "PATCH", "head": "HEAD"}


class RouteReader:
    def __init__(self, files, decide=None, skip_cfg_features=("debug",), consts=None):
        """files: list of rustparse.File ; decide(cond_text) -> True/False for `if` conditions"""
        self.files = files
        self.fns = {}
        for f in files:
            for name, defs in f.find_fns().items():
                for d in defs:
                    d["file"] = f
                    self.fns.setdefault(name, []).append(d)
        self.decide = decide
        self.consts = consts or {}
        self.locals = {}
        self.skip_cfg_features = skip_cfg_features
        self.visited = []          # configuration functions interpreted, in order
        self.skipped = []          # statements skipped because of #[cfg(feature = ..)]

    # ---- helpers ----------------------------------------------------------------------
    def fn_unique(self, name, where):
        ds = self.fns.get(name, [])
        if len(ds) != 1:
            raise Refuse("%s: function %s is defined %d times in the loaded files" % (where, name, len(ds)))
        return ds[0]

    @staticmethod
    def check_pattern(p, where):
        if not p.startswith("/") and p != "":
            raise Refuse("%s: pattern %r does not start with '/'" % (where, p))
        parse_pattern(p, where)
        return p

    def str_arg(self, e, where):
        """a string literal or a known string constant"""
        if e[0] == "str":
            return e[1]
        if e[0] == "path" and len(e[1]) == 1 and e[1][0] in self.consts:
            return self.consts[e[1][0]]
        raise Refuse("%s: expected a string literal or a known string constant, found %s" % (where, show(e)))

    def handler_text(self, e, where):
        if e[0] != "path":
            raise Refuse("%s: handler is not a plain function path: %s" % (where, show(e)))
        return "::".join(e[1])

    def route(self, e, where):
        """web::get().to(handler) -> (METHOD, handler)"""
        if e[0] == "method" and e[2] == "to" and len(e[3]) == 1:
            r = e[1]
            if r[0] == "call" and r[1][0] == "path" and len(r[2]) == 0 and len(r[1][1]) == 2 and r[1][1][0] == "web" \
                    and r[1][1][1] in METHODS:
                return (METHODS[r[1][1][1]], self.handler_text(e[3][0], where))
        raise Refuse("%s: route of unknown shape: %s" % (where, show(e)))

    def attr_route(self, name, where):
        """a handler fn registered directly: needs #[actix_web::<method>("pattern")]"""
        d = self.fn_unique(name, where)
        for a in d["attrs"]:
            txt = [t.v for t in a]
            if len(a) == 6 and txt[0] == "actix_web" and txt[1] == "::" and txt[2] in METHODS and txt[3] == "(" \
                    and a[4].k == "str" and txt[5] == ")":
                return ("guarded", self.check_pattern(a[4].v, where), [(METHODS[txt[2]], name)])
            if len(a) == 4 and txt[0] in METHODS and txt[1] == "(" and a[2].k == "str" and txt[3] == ")":
                return ("guarded", self.check_pattern(a[2].v, where), [(METHODS[txt[0]], name)])
        raise Refuse("%s: %s is registered as a service but has no #[actix_web::<method>(\"..\")] attribute" % (where, name))

    def service(self, e, where, in_scope=False):
        """S -> service tuple"""
        if e[0] == "path" and len(e[1]) == 1:
            if e[1][0] in self.locals:
                return self.locals[e[1][0]]
            return self.attr_route(e[1][0], where)
        # unwind the method chain
        chain = []
        cur = e
        while cur[0] == "method":
            chain.append((cur[2], cur[3]))
            cur = cur[1]
        chain.reverse()
        if cur[0] == "path" and len(cur[1]) == 1 and cur[1][0] in self.locals and self.locals[cur[1][0]][0] == "scope":
            base = self.locals[cur[1][0]]
            kids = list(base[2])
            for name, args in chain:
                if name != "service" or len(args) != 1:
                    raise Refuse("%s: scope(%r): unsupported call .%s(..)" % (where, base[1], name))
                kids.append(self.scope_child(args[0], where, base[1]))
            return ("scope", base[1], kids)
        if cur[0] == "call" and cur[1][0] == "path" and cur[1][1] in (["web", "scope"], ["scope"]) and len(cur[2]) == 1:
            prefix = self.str_arg(cur[2][0], where)
            if not prefix.startswith("/") or prefix.endswith("/") or "{" in prefix:
                raise Refuse("%s: scope prefix %r not of the form /a/b" % (where, prefix))
            kids = []
            for name, args in chain:
                if name != "service" or len(args) != 1:
                    raise Refuse("%s: scope(%r): unsupported call .%s(..)" % (where, prefix, name))
                kids.append(self.scope_child(args[0], where, prefix))
            return ("scope", prefix, kids)
        if cur[0] == "call" and cur[1][0] == "path" and cur[1][1] == ["web", "resource"] and len(cur[2]) == 1:
            pat = self.str_arg(cur[2][0], where)
            if in_scope and pat != "" and not pat.startswith("/"):
                pat = "/" + pat          # actix: ensure_leading_slash for non-empty patterns
            if not in_scope and pat == "":
                raise Refuse("%s: empty resource pattern outside a scope" % where)
            pat = self.check_pattern(pat, where)
            routes = []
            for name, args in chain:
                if name != "route" or len(args) != 1:
                    raise Refuse("%s: resource(%r): unsupported call .%s(..)" % (where, pat, name))
                routes.append(self.route(args[0], where))
            if not routes:
                raise Refuse("%s: resource(%r) without routes" % (where, pat))
            return ("resource", pat, routes)
        raise Refuse("%s: service of unknown shape: %s" % (where, show(e)[:200]))

    def scope_child(self, e, where, prefix):
        k = self.service(e, where, in_scope=True)
        if k[0] not in ("resource", "guarded"):
            raise Refuse("%s: only resources are supported inside a scope (scope %r)" % (where, prefix))
        if k[0] == "guarded" and not k[1].startswith("/"):
            raise Refuse("%s: attribute route %r inside scope %r must start with '/'" % (where, k[1], prefix))
        return k

    # ---- statements -------------------------------------------------------------------
    def stmts(self, toks, where, cfgvar, out):
        for st in split_statements(toks, where):
            self.stmt(st, where, cfgvar, out)

    def stmt(self, st, where, cfgvar, out):
        if st[0] == "attr":
            txt = "".join(t.v if t.k != "str" else '"%s"' % t.v for t in st[1])
            m = re.fullmatch(r'cfg\(feature="([a-z_]+)"\)', txt)
            if m and m.group(1) in self.skip_cfg_features:
                self.skipped.append("%s: #[%s] %s" % (where, txt, " ".join(t.v for t in st[2][1])[:80]))
                return
            raise Refuse("%s: attribute #[%s] on a registration statement" % (where, txt))
        if st[0] == "if":
            cond = " ".join(t.v for t in st[1])
            if self.decide is None:
                raise Refuse("%s: conditional registration `if %s` and no decision supplied" % (where, cond))
            take = self.decide(cond)
            if take not in (True, False):
                raise Refuse("%s: cannot decide condition `%s`" % (where, cond))
            branch = st[2] if take else st[3]
            if branch is None:
                return
            self.stmts(branch, where, cfgvar, out)
            return
        toks = st[1]
        if not toks:
            return
        if toks[0].k == "id" and toks[0].v == "let":
            # let NAME = S;
            if not (len(toks) > 3 and toks[1].k == "id" and toks[2].k == "p" and toks[2].v == "="):
                raise Refuse("%s: unsupported let statement" % where)
            self.locals[toks[1].v] = self.service(parse_expr(toks[3:], where), where)
            return
        e = parse_expr(toks, where)
        # OTHER_FN(config)
        if e[0] == "call" and e[1][0] == "path" and len(e[2]) == 1 and e[2][0] == ("path", [cfgvar]):
            self.config_fn(e[1][1][-1], out)
            return
        # config.service(..).service(..)
        chain = []
        cur = e
        while cur[0] == "method":
            chain.append((cur[2], cur[3]))
            cur = cur[1]
        chain.reverse()
        if cur == ("path", [cfgvar]) and chain:
            for name, args in chain:
                if name != "service" or len(args) != 1:
                    raise Refuse("%s: unsupported call %s.%s(..)" % (where, cfgvar, name))
                out.append(self.service(args[0], where))
            return
        raise Refuse("%s: statement of unknown shape: %s" % (where, show(e)[:200]))

    def config_fn(self, name, out):
        d = self.fn_unique(name, "route reader")
        where = "%s:%s" % (d["file"].rel, name)
        ptxt = [t.v for t in d["params"]]
        # (config: &mut ServiceConfig) or (config: &mut web::ServiceConfig)
        if not (len(ptxt) >= 5 and ptxt[1] == ":" and ptxt[2] == "&" and ptxt[3] == "mut" and ptxt[-1] == "ServiceConfig"
                and all(x in ("web", "::", "ServiceConfig") for x in ptxt[4:])):
            raise Refuse("%s: not a (config: &mut ServiceConfig) function: (%s)" % (where, " ".join(ptxt)))
        self.visited.append(name)
        self.stmts(d["body"], where, ptxt[0], out)

    def closure_fn(self, name, out):
        """fn NAME(..) -> impl FnOnce(&mut ServiceConfig) { move |config: &mut ServiceConfig| { STMT* } }"""
        d = self.fn_unique(name, "route reader")
        where = "%s:%s" % (d["file"].rel, name)
        b = d["body"]
        txt = [t.v for t in b]
        if not (len(txt) > 8 and txt[0] == "move" and txt[1] == "|" and txt[3] == ":" and txt[4] == "&" and txt[5] == "mut"
                and txt[6] == "ServiceConfig" and txt[7] == "|" and txt[8] == "{" and txt[-1] == "}"):
            raise Refuse("%s: body is not `move |config: &mut ServiceConfig| { .. }`" % where)
        self.visited.append(name)
        self.stmts(b[9:-1], where, txt[2], out)


def flatten(services):
    """-> list of (full_pattern, METHOD, handler) in registration order"""
    out = []
    for s in services:
        if s[0] in ("resource", "guarded"):
            for m, h in s[2]:
                out.append((s[1], m, h))
        else:
            for r in s[2]:
                for m, h in r[2]:
                    out.append((s[1] + r[1], m, h))
    return out


_ELEM = re.compile(r"\{([A-Za-z_][A-Za-z_0-9]*)(:[^{}]*)?\}")


def parse_pattern(p, where="?"):
    """-> ("exact", text) | ("prefix", text) | ("segs", [("lit", text) | ("seg",) | ("tail",)])"""
    if "{" not in p and "}" not in p:
        return ("exact", p)
    elems = []
    pos = 0
    for m in _ELEM.finditer(p):
        if m.start() > pos:
            elems.append(("lit", p[pos:m.start()]))
        if m.group(2) is None:
            # single segment: must sit between '/' and ('/' or the end)
            if not (m.start() > 0 and p[m.start() - 1] == "/") or not (m.end() == len(p) or p[m.end()] == "/"):
                raise Refuse("%s: pattern %r: dynamic segment must be a whole path segment" % (where, p))
            elems.append(("seg",))
        elif m.group(2) == ":.*":
            if m.end() != len(p) or not (m.start() > 0 and p[m.start() - 1] == "/"):
                raise Refuse("%s: pattern %r: a tail {x:.*} must be the last element and follow a '/'" % (where, p))
            elems.append(("tail",))
        else:
            raise Refuse("%s: pattern %r: custom segment regex %r is not supported" % (where, p, m.group(2)))
        pos = m.end()
    if pos < len(p):
        elems.append(("lit", p[pos:]))
    if any("{" in e[1] or "}" in e[1] for e in elems if e[0] == "lit"):
        raise Refuse("%s: pattern %r: unbalanced braces" % (where, p))
    if len(elems) == 2 and elems[0][0] == "lit" and elems[1][0] == "tail":
        return ("prefix", elems[0][1])
    return ("segs", elems)


def pattern_coq(p):
    from rustparse import coq_str
    k = parse_pattern(p)
    if k[0] == "exact":
        return "PExact %s" % coq_str(k[1])
    if k[0] == "prefix":
        return "PPrefix %s" % coq_str(k[1])
    return "PSegs [%s]" % "; ".join("PLit %s" % coq_str(e[1]) if e[0] == "lit" else ("PSeg" if e[0] == "seg" else "PTail")
                                      for e in k[1])


def services_coq(services):
    from rustparse import coq_str

    def res(r, ind):
        routes = "; ".join("(%s, %s)" % (coq_str(m), coq_str(h)) for m, h in r[2])
        return "%sRes %s (%s) [%s]" % (ind, "true" if r[0] == "guarded" else "false", pattern_coq(r[1]), routes)
    items = []
    for s in services:
        if s[0] in ("resource", "guarded"):
            items.append("  SRes (" + res(s, "").strip() + ")")
        else:
            kids = ";\n".join(res(r, "      ") for r in s[2])
            items.append("  SScope %s [\n%s\n    ]" % (coq_str(s[1]), kids))
    return "[\n" + ";\n".join(items) + "\n]"
