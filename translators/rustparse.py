"""A small, strict reader for the subset of Rust the translators need.

It tokenises a source file (comments removed, string / raw-string / char literals and
lifetimes recognised), finds items (fn, const, static ref inside lazy_static!, enum) by
brace matching on the token stream and parses *expressions of the table / builder kind*:

    literals, paths (a::b::C), calls f(a, b), method chains x.m(a).n(b), field access,
    & / &mut prefixes, macro calls name!(..) / name![..] whose arguments are expressions,
    struct-update-free struct literals are NOT accepted, closures are NOT accepted.

Everything else raises `Refuse` — a translator never guesses.  The AST is made of tuples:

    ("str", value) ("num", text) ("path", ["a","b"]) ("call", fn_expr, [args])
    ("method", recv, name, [args]) ("field", recv, name) ("ref", expr) ("macro", name, [args])
    ("tuple", [exprs]) ("unary", op, expr)
"""
import re


class Refuse(Exception):
    """the source has a shape the translator does not recognise (a broken tie)"""


class Tok:
    __slots__ = ("k", "v", "line")

    def __init__(self, k, v, line):
        self.k, self.v, self.line = k, v, line

    def __repr__(self):
        return "%s:%r@%d" % (self.k, self.v, self.line)


_PUNCT3 = ("..=", "<<=", ">>=", "...")
_PUNCT2 = ("::", "->", "=>", "==", "!=", "<=", ">=", "&&", "||", "..", "+=", "-=", "*=", "/=", "|=", "&=", "^=", "<<", ">>")
_ESC = {"n": "\n", "r": "\r", "t": "\t", "\\": "\\", "0": "\0", '"': '"', "'": "'"}


def tokenize(src, fname="?"):
    toks = []
    i, n, line = 0, len(src), 1
    while i < n:
        c = src[i]
        if c == "\n":
            line += 1
            i += 1
            continue
        if c in " \t\r":
            i += 1
            continue
        if src.startswith("//", i):
            j = src.find("\n", i)
            i = n if j < 0 else j
            continue
        if src.startswith("/*", i):
            depth, j = 1, i + 2
            while j < n and depth:
                if src.startswith("/*", j):
                    depth += 1
                    j += 2
                elif src.startswith("*/", j):
                    depth -= 1
                    j += 2
                else:
                    if src[j] == "\n":
                        line += 1
                    j += 1
            if depth:
                raise Refuse("%s:%d: unterminated block comment" % (fname, line))
            i = j
            continue
        # raw strings r"..", r#".."#, br".."
        m = re.compile(r'b?r(#*)"').match(src, i)
        if m:
            hashes = m.group(1)
            end = '"' + hashes
            j = src.find(end, m.end())
            if j < 0:
                raise Refuse("%s:%d: unterminated raw string" % (fname, line))
            val = src[m.end():j]
            toks.append(Tok("str", val, line))
            line += val.count("\n")
            i = j + len(end)
            continue
        if c == '"' or (c == "b" and i + 1 < n and src[i + 1] == '"'):
            j = i + (2 if c == "b" else 1)
            out = []
            while True:
                if j >= n:
                    raise Refuse("%s:%d: unterminated string" % (fname, line))
                ch = src[j]
                if ch == '"':
                    break
                if ch == "\\":
                    e = src[j + 1]
                    if e in _ESC:
                        out.append(_ESC[e])
                        j += 2
                    elif e == "\n":          # line continuation
                        j += 2
                        line += 1
                        while j < n and src[j] in " \t\r\n":
                            if src[j] == "\n":
                                line += 1
                            j += 1
                    elif e == "x":
                        out.append(chr(int(src[j + 2:j + 4], 16)))
                        j += 4
                    elif e == "u":
                        k = src.index("}", j)
                        out.append(chr(int(src[j + 3:k], 16)))
                        j = k + 1
                    else:
                        raise Refuse("%s:%d: unknown escape \\%s" % (fname, line, e))
                    continue
                if ch == "\n":
                    line += 1
                out.append(ch)
                j += 1
            toks.append(Tok("str", "".join(out), line))
            i = j + 1
            continue
        if c == "'":
            # char literal or lifetime
            m = re.compile(r"'(\\.|\\x[0-9a-fA-F]{2}|\\u\{[0-9a-fA-F]+\}|[^\\'])'").match(src, i)
            if m:
                toks.append(Tok("char", m.group(1), line))
                i = m.end()
                continue
            m = re.compile(r"'[A-Za-z_][A-Za-z_0-9]*").match(src, i)
            if m:
                toks.append(Tok("life", m.group(0), line))
                i = m.end()
                continue
            raise Refuse("%s:%d: cannot read quote" % (fname, line))
        m = re.compile(r"(r#)?[A-Za-z_][A-Za-z_0-9]*").match(src, i)
        if m:
            toks.append(Tok("id", m.group(0), line))
            i = m.end()
            continue
        m = re.compile(r"[0-9][0-9A-Za-z_]*(\.[0-9][0-9A-Za-z_]*)?").match(src, i)
        if m:
            toks.append(Tok("num", m.group(0), line))
            i = m.end()
            continue
        for p in _PUNCT3 + _PUNCT2:
            if src.startswith(p, i):
                toks.append(Tok("p", p, line))
                i += len(p)
                break
        else:
            toks.append(Tok("p", c, line))
            i += 1
    return toks


_OPEN = {"(": ")", "[": "]", "{": "}"}


def match_close(toks, i):
    """toks[i] is an opening bracket; returns the index of its closing bracket"""
    assert toks[i].k == "p" and toks[i].v in _OPEN, toks[i]
    stack = []
    j = i
    while j < len(toks):
        t = toks[j]
        if t.k == "p":
            if t.v in _OPEN:
                stack.append(_OPEN[t.v])
            elif t.v in (")", "]", "}"):
                if not stack or stack[-1] != t.v:
                    raise Refuse("line %d: unbalanced %s" % (t.line, t.v))
                stack.pop()
                if not stack:
                    return j
        j += 1
    raise Refuse("line %d: unclosed %s" % (toks[i].line, toks[i].v))


def fns_in(T):
    """all `fn name(..) {..}` in a token list: dict name -> list of dict(attrs, params, body, line)"""
    out = {}
    for i, t in enumerate(T):
        if t.k == "id" and t.v == "fn" and i + 1 < len(T) and T[i + 1].k == "id":
            name = T[i + 1].v
            j = i + 2
            if T[j].k == "p" and T[j].v == "<":       # generics: skip to matching '>'
                depth = 0
                while True:
                    if T[j].k == "p" and T[j].v == "<":
                        depth += 1
                    elif T[j].k == "p" and T[j].v == ">":
                        depth -= 1
                        if depth == 0:
                            break
                    elif T[j].k == "p" and T[j].v == ">>":
                        depth -= 2
                        if depth <= 0:
                            break
                    j += 1
                j += 1
            if not (T[j].k == "p" and T[j].v == "("):
                continue
            pe = match_close(T, j)
            k = pe + 1
            while k < len(T) and not (T[k].k == "p" and T[k].v in ("{", ";")):
                k += 1
            if k >= len(T) or T[k].v == ";":
                continue
            be = match_close(T, k)
            # attributes directly before (skipping pub / async / visibility)
            a = i - 1
            while a >= 0 and ((T[a].k == "id" and T[a].v in ("pub", "async", "crate", "const", "unsafe"))
                              or (T[a].k == "p" and T[a].v in ("(", ")"))):
                a -= 1
            attrs = []
            while a >= 0 and T[a].k == "p" and T[a].v == "]":
                # find matching '[' backwards
                depth, b = 0, a
                while b >= 0:
                    if T[b].k == "p" and T[b].v == "]":
                        depth += 1
                    elif T[b].k == "p" and T[b].v == "[":
                        depth -= 1
                        if depth == 0:
                            break
                    b -= 1
                if b >= 1 and T[b - 1].k == "p" and T[b - 1].v == "#":
                    attrs.insert(0, T[b + 1:a])
                    a = b - 2
                else:
                    break
            out.setdefault(name, []).append(dict(attrs=attrs, params=T[j + 1:pe], body=T[k + 1:be],
                                                 line=t.line))
    return out


def param_names(params):
    """names of simple parameters `a: T, b: &U` (no patterns, no self); None when not that simple"""
    names, depth, expect = [], 0, True
    for i, t in enumerate(params):
        if t.k == "p" and t.v in ("(", "[", "{", "<"):
            depth += 1
        elif t.k == "p" and t.v in (")", "]", "}", ">"):
            depth -= 1
        elif t.k == "p" and t.v == "," and depth == 0:
            expect = True
        elif expect and depth == 0:
            if t.k == "id" and t.v == "mut":
                continue
            if t.k != "id" or t.v == "self" or i + 1 >= len(params) or params[i + 1].v != ":":
                return None
            names.append(t.v)
            expect = False
    return names


def inline_call(stmt, fns, where="?"):
    """`let X = [Self ::] f ( a1 , .. , an ) [?]` where f is defined once in `fns` with a body that is ONE tail
    expression (no statement), simple parameters, and every argument a single identifier or `& identifier`:
    returns the statement with the call replaced by the body (parameters substituted), else None.  The extract-
    function refactoring is the only rewrite this undoes; anything else keeps being refused by the caller."""
    w = [t.v for t in stmt]
    if len(w) < 6 or w[0] != "let" or w[2] != "=":
        return None
    i = 3
    if w[i:i + 2] == ["Self", "::"]:
        i += 2
    if stmt[i].k != "id" or w[i + 1] != "(":
        return None
    close = match_close(stmt, i + 1)
    rest = w[close + 1:]
    if rest not in ([], ["?"]):
        return None
    defs = fns.get(w[i], [])
    if len(defs) != 1:
        return None
    names = param_names(defs[0]["params"])
    body = defs[0]["body"]
    if names is None or any(t.k == "p" and t.v == ";" for t in body):
        return None
    # arguments
    args, cur, depth = [], [], 0
    for t in stmt[i + 2:close]:
        if t.k == "p" and t.v in ("(", "[", "{"):
            depth += 1
        elif t.k == "p" and t.v in (")", "]", "}"):
            depth -= 1
        if t.k == "p" and t.v == "," and depth == 0:
            args.append(cur)
            cur = []
        else:
            cur.append(t)
    if cur:
        args.append(cur)
    if len(args) != len(names):
        return None
    sub = {}
    for n, a in zip(names, args):
        av = [t.v for t in a]
        if len(a) == 1 and a[0].k == "id":
            sub[n] = a
        elif len(a) == 2 and av[0] == "&" and a[1].k == "id":
            sub[n] = a          # a reference parameter used through auto-deref in the body
        else:
            return None
    tail_q = rest == ["?"]
    if tail_q:
        # `Ok ( E )` body with `?` at the call site: the value is E
        bw = [t.v for t in body]
        if bw[:2] != ["Ok", "("] or match_close(body, 1) != len(body) - 1:
            return None
        body = body[2:-1]
    out = list(stmt[:3])
    for t in body:
        if t.k == "id" and t.v in sub:
            a = sub[t.v]
            out.extend(a if len(a) == 1 else a[1:])       # `&x` passed for `p: &T`: `p.f()` is `x.f()`
        else:
            out.append(t)
    return out


class File:
    def __init__(self, path, rel=None):
        self.path = path
        self.rel = rel or path
        self.src = open(path, encoding="utf-8").read()
        self.toks = tokenize(self.src, self.rel)

    def refuse(self, tok, msg):
        raise Refuse("%s:%d: %s" % (self.rel, tok.line if tok else 0, msg))

    # ---- items -------------------------------------------------------------------------
    def find_fns(self):
        return fns_in(self.toks)

    def find_impl(self, type_name):
        """token list of the body of `impl TYPE {` (inherent impl, no generics); refuses 0 or >1"""
        T = self.toks
        found = []
        for i, t in enumerate(T):
            if t.k == "id" and t.v == "impl" and i + 2 < len(T) and T[i + 1].k == "id" and T[i + 1].v == type_name \
                    and T[i + 2].k == "p" and T[i + 2].v == "{":
                e = match_close(T, i + 2)
                # impl blocks of the verification hooks (#[cfg(rnacos_verif)]) are not part of the product
                pre = [x.v for x in T[max(0, i - 7):i]]
                if pre == ["#", "[", "cfg", "(", "rnacos_verif", ")", "]"]:
                    continue
                found.append(T[i + 3:e])
        if len(found) != 1:
            raise Refuse("%s: expected exactly one `impl %s {`, found %d" % (self.rel, type_name, len(found)))
        return found[0]


    def find_consts(self):
        """`const NAME: &str = "lit";` and `const NAME: &str = OTHER;` -> dict name -> token list of the value"""
        out = {}
        T = self.toks
        for i, t in enumerate(T):
            if t.k == "id" and t.v == "const" and i + 2 < len(T) and T[i + 1].k == "id" and T[i + 2].k == "p" and T[i + 2].v == ":":
                j = i + 3
                while not (T[j].k == "p" and T[j].v == "="):
                    j += 1
                k = j + 1
                while not (T[k].k == "p" and T[k].v == ";"):
                    k += 1
                out[T[i + 1].v] = T[j + 1:k]
        return out

    def find_static_refs(self):
        """`static ref NAME: TYPE = EXPR;` -> dict name -> (type tokens, expr tokens)"""
        out = {}
        T = self.toks
        i = 0
        while i < len(T):
            t = T[i]
            if t.k == "id" and t.v == "static" and i + 2 < len(T) and T[i + 1].k == "id" and T[i + 1].v == "ref":
                name = T[i + 2].v
                j = i + 3
                if not (T[j].k == "p" and T[j].v == ":"):
                    self.refuse(T[j], "static ref without type")
                k = j + 1
                while not (T[k].k == "p" and T[k].v == "="):
                    k += 1
                # expression runs to the ';' at bracket depth 0
                e = k + 1
                while True:
                    if T[e].k == "p" and T[e].v in _OPEN:
                        e = match_close(T, e) + 1
                        continue
                    if T[e].k == "p" and T[e].v == ";":
                        break
                    e += 1
                if name in out:
                    self.refuse(t, "static ref %s defined twice" % name)
                out[name] = (T[j + 1:k], T[k + 1:e])
                i = e
            i += 1
        return out

    def find_enum(self, name):
        T = self.toks
        for i, t in enumerate(T):
            if t.k == "id" and t.v == "enum" and T[i + 1].k == "id" and T[i + 1].v == name:
                j = i + 2
                if not (T[j].k == "p" and T[j].v == "{"):
                    self.refuse(T[j], "enum %s: generics not supported" % name)
                e = match_close(T, j)
                body = T[j + 1:e]
                variants = []
                k = 0
                while k < len(body):
                    if body[k].k == "p" and body[k].v == "#":      # attribute on a variant
                        k = match_close(body, k + 1) + 1
                        continue
                    if body[k].k != "id":
                        self.refuse(body[k], "enum %s: unexpected token %r" % (name, body[k].v))
                    variants.append(body[k].v)
                    k += 1
                    if k < len(body) and body[k].k == "p" and body[k].v in ("(", "{"):
                        self.refuse(body[k], "enum %s: variant with payload" % name)
                    if k < len(body):
                        if not (body[k].k == "p" and body[k].v == ","):
                            self.refuse(body[k], "enum %s: expected ','" % name)
                        k += 1
                return variants
        raise Refuse("%s: enum %s not found" % (self.rel, name))


# ---------------------------------------------------------------------------------------
# expressions
# ---------------------------------------------------------------------------------------

class ExprParser:
    def __init__(self, toks, where="?"):
        self.T = toks
        self.i = 0
        self.where = where

    def refuse(self, msg):
        t = self.T[self.i] if self.i < len(self.T) else (self.T[-1] if self.T else None)
        raise Refuse("%s:%s: %s" % (self.where, t.line if t else "?", msg))

    def peek(self, k=0):
        return self.T[self.i + k] if self.i + k < len(self.T) else None

    def at(self, v, k=0):
        t = self.peek(k)
        return t is not None and t.k == "p" and t.v == v

    def at_id(self, v=None, k=0):
        t = self.peek(k)
        return t is not None and t.k == "id" and (v is None or t.v == v)

    def take(self, v=None):
        t = self.peek()
        if t is None:
            self.refuse("unexpected end, wanted %r" % v)
        if v is not None and not (t.k == "p" and t.v == v):
            self.refuse("expected %r, found %r" % (v, t.v))
        self.i += 1
        return t

    def done(self):
        return self.i >= len(self.T)

    def args(self, close):
        out = []
        while not self.at(close):
            out.append(self.expr())
            if self.at(","):
                self.take(",")
            elif not self.at(close):
                self.refuse("expected ',' or %r, found %r" % (close, self.peek().v if self.peek() else None))
        self.take(close)
        return out

    def path(self):
        segs = [self.take().v]
        while self.at("::"):
            if self.at("<", 1):
                # turbofish: skip balanced <...>
                self.take("::")
                depth = 0
                while True:
                    t = self.take()
                    if t.k == "p" and t.v == "<":
                        depth += 1
                    elif t.k == "p" and t.v == ">":
                        depth -= 1
                    elif t.k == "p" and t.v == ">>":
                        depth -= 2
                    if depth <= 0:
                        break
                continue
            if not self.at_id(k=1):
                self.refuse("path: expected identifier after '::'")
            self.take("::")
            segs.append(self.take().v)
        return ("path", segs)

    def primary(self):
        t = self.peek()
        if t is None:
            self.refuse("unexpected end of expression")
        if t.k == "str":
            self.i += 1
            return ("str", t.v)
        if t.k == "num":
            self.i += 1
            return ("num", t.v)
        if t.k == "p" and t.v == "&":
            self.take("&")
            if self.at_id("mut"):
                self.take()
            return ("ref", self.postfix())
        if t.k == "p" and t.v in ("!", "-", "*"):
            self.take()
            return ("unary", t.v, self.postfix())
        if t.k == "p" and t.v == "(":
            self.take("(")
            xs = self.args(")")
            return xs[0] if len(xs) == 1 else ("tuple", xs)
        if t.k == "id":
            if t.v in ("if", "match", "move", "loop", "while", "for", "unsafe", "async", "return", "let"):
                self.refuse("unsupported expression starting with %r" % t.v)
            p = self.path()
            if self.at("!"):
                self.take("!")
                o = self.take()
                if not (o.k == "p" and o.v in _OPEN):
                    self.refuse("macro without delimiter")
                return ("macro", "::".join(p[1]), self.args(_OPEN[o.v]))
            if self.at("{"):
                self.refuse("struct literal / block not supported here")
            return p
        if t.k == "p" and t.v == "|":
            self.refuse("closures are not supported")
        self.refuse("unexpected token %r" % t.v)

    def postfix(self):
        e = self.primary()
        while True:
            if self.at("("):
                self.take("(")
                e = ("call", e, self.args(")"))
            elif self.at(".") and self.at_id(k=1):
                self.take(".")
                name = self.take().v
                if self.at("::"):           # turbofish on a method
                    self.take("::")
                    depth = 0
                    while True:
                        t = self.take()
                        if t.k == "p" and t.v == "<":
                            depth += 1
                        elif t.k == "p" and t.v == ">":
                            depth -= 1
                        elif t.k == "p" and t.v == ">>":
                            depth -= 2
                        if depth <= 0:
                            break
                if self.at("("):
                    self.take("(")
                    e = ("method", e, name, self.args(")"))
                else:
                    e = ("field", e, name)
            elif self.at("?"):
                self.refuse("'?' operator not supported in tables")
            else:
                return e

    def expr(self):
        e = self.postfix()
        # binary operators are not part of the table subset; `||` / `&&` / `==` are handled by callers
        return e


def parse_expr(toks, where="?"):
    p = ExprParser(toks, where)
    e = p.expr()
    if not p.done():
        p.refuse("trailing tokens after expression: %r" % p.peek().v)
    return e


def split_statements(toks, where="?"):
    """split a function body into statements at top-level ';' ; a trailing expression without ';' is
    the last statement.  `if`/`else` blocks and attribute-prefixed statements are returned as
    ("if", cond_toks, then_toks, else_toks|None) / ("attr", attr_toks, stmt)."""
    out = []
    i, n = 0, len(toks)
    while i < n:
        t = toks[i]
        if t.k == "p" and t.v == "#":
            e = match_close(toks, i + 1)
            attr = toks[i + 2:e]
            # the statement the attribute applies to
            j = e + 1
            k = j
            while k < n:
                if toks[k].k == "p" and toks[k].v in _OPEN:
                    k = match_close(toks, k) + 1
                    continue
                if toks[k].k == "p" and toks[k].v == ";":
                    break
                k += 1
            out.append(("attr", attr, ("expr", toks[j:k])))
            i = k + 1
            continue
        if t.k == "id" and t.v == "if":
            j = i + 1
            while not (toks[j].k == "p" and toks[j].v == "{"):
                if toks[j].k == "p" and toks[j].v in ("(", "["):
                    j = match_close(toks, j) + 1
                    continue
                j += 1
            cond = toks[i + 1:j]
            e = match_close(toks, j)
            then = toks[j + 1:e]
            els = None
            k = e + 1
            if k < n and toks[k].k == "id" and toks[k].v == "else":
                if not (toks[k + 1].k == "p" and toks[k + 1].v == "{"):
                    raise Refuse("%s:%d: else-if chains are not supported" % (where, toks[k].line))
                e2 = match_close(toks, k + 1)
                els = toks[k + 2:e2]
                k = e2 + 1
            if k < n and toks[k].k == "p" and toks[k].v == ";":
                k += 1
            out.append(("if", cond, then, els))
            i = k
            continue
        k = i
        while k < n:
            if toks[k].k == "p" and toks[k].v in _OPEN:
                k = match_close(toks, k) + 1
                continue
            if toks[k].k == "p" and toks[k].v == ";":
                break
            k += 1
        out.append(("expr", toks[i:k]))
        i = k + 1
    return out


def show(e):
    """compact text of an AST node, for error messages"""
    k = e[0]
    if k == "str":
        return repr(e[1])
    if k == "num":
        return e[1]
    if k == "path":
        return "::".join(e[1])
    if k == "call":
        return "%s(%s)" % (show(e[1]), ", ".join(show(a) for a in e[2]))
    if k == "method":
        return "%s.%s(%s)" % (show(e[1]), e[2], ", ".join(show(a) for a in e[3]))
    if k == "field":
        return "%s.%s" % (show(e[1]), e[2])
    if k == "ref":
        return "&" + show(e[1])
    if k == "macro":
        return "%s![%s]" % (e[1], ", ".join(show(a) for a in e[2]))
    if k == "tuple":
        return "(%s)" % ", ".join(show(a) for a in e[1])
    if k == "unary":
        return e[1] + show(e[2])
    return str(e)


# ---------------------------------------------------------------------------------------
# regular expression literals of the accepted shapes
# ---------------------------------------------------------------------------------------

_WORD = r"[A-Za-z0-9]+"


def regex_slash_words(lit, where):
    """(?i)/(w1|..|wn)/.*   or   (?i)/w1/w2/.../.*  -> list of words, each a '/'-free... returns
    list of alternatives; every alternative is the literal between the first '/' and the last '/'
    (may itself contain '/': `(?i)/rnacos/v1/.*` -> ['rnacos/v1'])."""
    m = re.fullmatch(r"\(\?i\)/\((%s(?:\|%s)*)\)/\.\*" % (_WORD, _WORD), lit)
    if m:
        return m.group(1).split("|")
    m = re.fullmatch(r"\(\?i\)/(%s(?:/%s)*)/\.\*" % (_WORD, _WORD), lit)
    if m:
        return [m.group(1)]
    raise Refuse("%s: regex %r is not of the accepted shape (?i)/(w1|..|wn)/.* or (?i)/w1/../wn/.*" % (where, lit))


def regex_dot_exts(lit, where):
    """(?i).*\\.(e1|..|en) -> list of extensions"""
    m = re.fullmatch(r"\(\?i\)\.\*\\\.\((%s(?:\|%s)*)\)" % (_WORD, _WORD), lit)
    if m:
        return m.group(1).split("|")
    raise Refuse("%s: regex %r is not of the accepted shape (?i).*\\.(e1|..|en)" % (where, lit))


# ---------------------------------------------------------------------------------------
# Coq output helpers
# ---------------------------------------------------------------------------------------

def coq_str(s):
    for ch in s:
        if not (32 <= ord(ch) < 127):
            raise Refuse("non-ASCII or control character in literal %r" % s)
    return '"' + s.replace('"', '""') + '"'


def coq_list(items, indent="  "):
    if not items:
        return "[]"
    return "[\n" + ";\n".join(indent + it for it in items) + "\n]"
