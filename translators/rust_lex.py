"""Tiny Rust lexer + brace matcher shared by the translators.

The translators never guess: they recognise a small set of literal source shapes and raise
`Refuse` (with file/function/arm and the offending text) for everything else.  A refusal is a
broken tie between the Rocq tables and the source (the check reports it as a violation)."""
import re


class Refuse(Exception):
    pass


_TOKEN = re.compile(
    r"""\s*(?:
      (?P<str>b?"(?:[^"\\]|\\.)*")
    | (?P<chr>'(?:[^'\\]|\\x[0-9a-fA-F]{2}|\\u\{[0-9a-fA-F]+\}|\\.)')
    | (?P<id>[A-Za-z_][A-Za-z_0-9]*)
    | (?P<num>[0-9][0-9A-Za-z_]*)
    | (?P<op>::|=>|->|==|!=|<=|>=|&&|\|\||\.\.|[{}()\[\];,.:=&|!?<>+\-*/%#@'^~$])
    )""",
    re.X,
)


def strip_comments(src):
    out = []
    i, n = 0, len(src)
    while i < n:
        c = src[i]
        if src.startswith("//", i):
            j = src.find("\n", i)
            i = n if j < 0 else j
            continue
        if src.startswith("/*", i):
            depth = 1
            i += 2
            while i < n and depth:
                if src.startswith("/*", i):
                    depth += 1
                    i += 2
                elif src.startswith("*/", i):
                    depth -= 1
                    i += 2
                else:
                    i += 1
            out.append(" ")
            continue
        if c == '"':
            j = i + 1
            while j < n and src[j] != '"':
                j += 2 if src[j] == "\\" else 1
            out.append(src[i:j + 1])
            i = j + 1
            continue
        out.append(c)
        i += 1
    return "".join(out)


def lex(src):
    src = strip_comments(src)
    toks = []
    pos = 0
    n = len(src)
    while pos < n:
        m = _TOKEN.match(src, pos)
        if not m:
            if src[pos:].strip() == "":
                break
            raise Refuse("cannot tokenise Rust source at: %r" % src[pos:pos + 40])
        toks.append(m.group(m.lastgroup))
        pos = m.end()
    return toks


OPEN = {"{": "}", "(": ")", "[": "]"}
CLOSE = {"}", ")", "]"}


def match_close(toks, i):
    """toks[i] is an opening bracket: index of the matching closing bracket"""
    assert toks[i] in OPEN, toks[i]
    stack = []
    for j in range(i, len(toks)):
        t = toks[j]
        if t in OPEN:
            stack.append(OPEN[t])
        elif t in CLOSE:
            if not stack or stack.pop() != t:
                raise Refuse("unbalanced brackets")
            if not stack:
                return j
    raise Refuse("unbalanced brackets (eof)")


def find_seq(toks, seq, start=0):
    n = len(seq)
    for i in range(start, len(toks) - n + 1):
        if toks[i:i + n] == seq:
            return i
    return -1


def fn_body(toks, name):
    """tokens of the body `{ ... }` (without the braces) of `fn <name>`; (params_tokens, body_tokens)"""
    i = find_seq(toks, ["fn", name])
    if i < 0:
        raise Refuse("function %s not found" % name)
    if find_seq(toks, ["fn", name], i + 1) >= 0:
        raise Refuse("function %s defined more than once" % name)
    p = i + 2
    if toks[p] == "<":
        raise Refuse("function %s: generic parameters are not an accepted shape" % name)
    if toks[p] != "(":
        raise Refuse("function %s: expected (" % name)
    pe = match_close(toks, p)
    j = pe + 1
    while toks[j] != "{":
        j += 1
    je = match_close(toks, j)
    return toks[p + 1:pe], toks[pe + 1:j], toks[j + 1:je]


def split_top(toks, sep):
    """split a token list at top-level occurrences of `sep`"""
    parts, cur, depth = [], [], 0
    for t in toks:
        if t in OPEN:
            depth += 1
        elif t in CLOSE:
            depth -= 1
        if t == sep and depth == 0:
            parts.append(cur)
            cur = []
        else:
            cur.append(t)
    parts.append(cur)
    return parts


def j(toks):
    return " ".join(toks)
