#!/usr/bin/env python3
"""Translator for C17: regenerates coq/Gen/ConsoleTables.v from the Rust source.

Reads (relative to the repo root)
  src/common/constant.rs                 HTTP_METHOD_* / EMPTY_STR constants
  src/user/permission.rs                 M_* module tables, R_* role groups, role value constants,
                                         enum UserRole, UserRole::new, UserRole::get_resources
  src/console/middle/login_middle.rs     IGNORE_CHECK_LOGIN, STATIC_FILE_PATH, API_PATH
  src/web_config.rs, src/console/api.rs  route registrations reachable from console_config

Accepted source shapes (anything else raises Refuse = a broken tie, never skipped):
  * `pub const NAME: &str = "literal";` or `= OTHER_CONST;`
  * `static ref M_X: ModuleResource = ModuleResource::new(vec![ ITEM, .. ]);` with
       ITEM := R::WebResource("lit") | R::Path("lit", HTTP_METHOD_CONST)     (`type R = Resource;`)
  * `static ref R_X: Arc<GroupResource> = Arc::new(GroupResource::new(vec![ &M_A, .. ]));`
  * `static ref USER_ROLE_X: Arc<String> = Arc::new("lit".to_string());`
  * `static ref ALL_ROLES: Vec<Arc<String>> = vec![USER_ROLE_X.clone(), ..];`
  * `enum UserRole { A, B, .. }` (unit variants)
  * `fn new(role_value: &str) -> Self { match role_value { CONST => Self::V, .., _ => Self::V } }`
  * `fn get_resources(&self) -> .. { match &self { UserRole::V => vec![R_X.as_ref(), ..], .. } }`
     covering every variant, no wildcard
  * `static ref IGNORE_CHECK_LOGIN: Vec<&'static str> = vec!["lit", ..];`
  * `static ref STATIC_FILE_PATH: Regex = Regex::new(r"(?i).*\\.(e1|..|en)").unwrap();`
  * `static ref API_PATH: Regex = Regex::new(r"(?i)/(w1|..|wn)/.*").unwrap();`
  * route registrations: see actix_routes.py
Any further `static ref` in permission.rs / login_middle.rs is refused (it could change the decision).
"""
import os
import sys

sys.path.insert(0, os.path.dirname(os.path.abspath(__file__)))
import actix_routes  # noqa: E402
import rustparse as rp  # noqa: E402
from rustparse import Refuse, coq_str  # noqa: E402


def const_table(f, wanted):
    """resolve `const NAME: &str = ..` to strings (one level of aliasing)"""
    raw = f.find_consts()
    out = {}

    def resolve(name, depth=0):
        if name not in raw:
            raise Refuse("%s: constant %s not found" % (f.rel, name))
        v = raw[name]
        if len(v) == 1 and v[0].k == "str":
            return v[0].v
        if len(v) == 1 and v[0].k == "id" and depth < 3:
            return resolve(v[0].v, depth + 1)
        raise Refuse("%s: constant %s is not a string literal or an alias" % (f.rel, name))
    for n in wanted:
        out[n] = resolve(n)
    return out


def parse_match_arms(toks, where):
    """`match SCRUT { PAT => EXPR, .. }` (the whole fn body) -> (scrutinee tokens, [(pat tokens, expr tokens)])"""
    if not (toks and toks[0].k == "id" and toks[0].v == "match"):
        raise Refuse("%s: body is not a single match expression" % where)
    i = 1
    while not (toks[i].k == "p" and toks[i].v == "{"):
        i += 1
    scrut = toks[1:i]
    e = rp.match_close(toks, i)
    if e != len(toks) - 1:
        raise Refuse("%s: tokens after the match expression" % where)
    body = toks[i + 1:e]
    arms = []
    k = 0
    while k < len(body):
        j = k
        while not (body[j].k == "p" and body[j].v == "=>"):
            j += 1
            if j >= len(body):
                raise Refuse("%s: match arm without =>" % where)
        pat = body[k:j]
        x = j + 1
        while x < len(body):
            if body[x].k == "p" and body[x].v in ("(", "[", "{"):
                x = rp.match_close(body, x) + 1
                continue
            if body[x].k == "p" and body[x].v == ",":
                break
            x += 1
        arms.append((pat, body[j + 1:x]))
        k = x + 1
    return scrut, arms


def read_permission(repo):
    cf = rp.File(os.path.join(repo, "src/common/constant.rs"), "src/common/constant.rs")
    consts = const_table(cf, ["EMPTY_STR", "HTTP_METHOD_GET", "HTTP_METHOD_POST", "HTTP_METHOD_ALL"])
    f = rp.File(os.path.join(repo, "src/user/permission.rs"), "src/user/permission.rs")
    src_nocomment = " ".join(t.v for t in f.toks)
    if "type R = Resource ;" not in src_nocomment:
        raise Refuse("%s: `type R = Resource;` not found" % f.rel)
    variants = f.find_enum("UserRole")
    statics = f.find_static_refs()
    modules, groups, role_consts, all_roles = {}, {}, {}, None
    order_m, order_g = [], []
    for name, (ty, ex) in statics.items():
        where = "%s:%s" % (f.rel, name)
        tytxt = "".join(t.v for t in ty)
        e = rp.parse_expr(ex, where)
        if name.startswith("M_") and tytxt == "ModuleResource":
            if not (e[0] == "call" and e[1] == ("path", ["ModuleResource", "new"]) and len(e[2]) == 1
                    and e[2][0][0] == "macro" and e[2][0][1] == "vec"):
                raise Refuse("%s: not ModuleResource::new(vec![..])" % where)
            paths, webs = [], []
            for it in e[2][0][2]:
                if it[0] == "call" and it[1] == ("path", ["R", "WebResource"]) and len(it[2]) == 1 and it[2][0][0] == "str":
                    webs.append(it[2][0][1])
                elif it[0] == "call" and it[1] == ("path", ["R", "Path"]) and len(it[2]) == 2 and it[2][0][0] == "str" \
                        and it[2][1][0] == "path" and len(it[2][1][1]) == 1:
                    mc = it[2][1][1][0]
                    if mc not in consts or not mc.startswith("HTTP_METHOD_"):
                        raise Refuse("%s: unknown method constant %s" % (where, mc))
                    paths.append((it[2][0][1], mc))
                else:
                    raise Refuse("%s: unknown resource item %s" % (where, rp.show(it)))
            modules[name] = (paths, webs)
            order_m.append(name)
        elif name.startswith("R_") and tytxt == "Arc<GroupResource>":
            if not (e[0] == "call" and e[1] == ("path", ["Arc", "new"]) and len(e[2]) == 1):
                raise Refuse("%s: not Arc::new(GroupResource::new(vec![..]))" % where)
            g = e[2][0]
            if not (g[0] == "call" and g[1] == ("path", ["GroupResource", "new"]) and len(g[2]) == 1
                    and g[2][0][0] == "macro" and g[2][0][1] == "vec"):
                raise Refuse("%s: not Arc::new(GroupResource::new(vec![..]))" % where)
            ms = []
            for it in g[2][0][2]:
                if it[0] == "ref" and it[1][0] == "path" and len(it[1][1]) == 1:
                    ms.append(it[1][1][0])
                else:
                    raise Refuse("%s: unknown group item %s" % (where, rp.show(it)))
            groups[name] = ms
            order_g.append(name)
        elif name.startswith("USER_ROLE_") and tytxt == "Arc<String>":
            if not (e[0] == "call" and e[1] == ("path", ["Arc", "new"]) and len(e[2]) == 1 and e[2][0][0] == "method"
                    and e[2][0][2] == "to_string" and e[2][0][1][0] == "str" and not e[2][0][3]):
                raise Refuse("%s: not Arc::new(\"..\".to_string())" % where)
            role_consts[name] = e[2][0][1][1]
        elif name == "ALL_ROLES":
            if not (e[0] == "macro" and e[1] == "vec"):
                raise Refuse("%s: not vec![..]" % where)
            all_roles = []
            for it in e[2]:
                if it[0] == "method" and it[2] == "clone" and it[1][0] == "path" and len(it[1][1]) == 1:
                    all_roles.append(it[1][1][0])
                else:
                    raise Refuse("%s: unknown item %s" % (where, rp.show(it)))
        else:
            raise Refuse("%s: static ref of unknown kind (type %s)" % (where, tytxt))
    for g, ms in groups.items():
        for m in ms:
            if m not in modules:
                raise Refuse("%s:%s refers to unknown module %s" % (f.rel, g, m))
    if all_roles is None:
        raise Refuse("%s: ALL_ROLES not found" % f.rel)
    for r in all_roles:
        if r not in role_consts:
            raise Refuse("%s: ALL_ROLES refers to unknown %s" % (f.rel, r))

    impl = rp.fns_in(f.find_impl("UserRole"))
    value_consts = const_table(f, [n for n in f.find_consts() if n.endswith("_VALUE")])
    # UserRole::new
    if len(impl.get("new", [])) != 1:
        raise Refuse("%s: UserRole::new not found" % f.rel)
    scrut, arms = parse_match_arms(impl["new"][0]["body"], f.rel + ":UserRole::new")
    if [t.v for t in scrut] != ["role_value"] or [t.v for t in impl["new"][0]["params"]] != ["role_value", ":", "&", "str"]:
        raise Refuse("%s: UserRole::new does not match on its &str parameter" % f.rel)
    new_table, new_default = [], None
    for pat, ex in arms:
        ptxt = [t.v for t in pat]
        etxt = [t.v for t in ex]
        if not (len(etxt) == 3 and etxt[0] == "Self" and etxt[1] == "::" and etxt[2] in variants):
            raise Refuse("%s: UserRole::new arm result %s" % (f.rel, " ".join(etxt)))
        if new_default is not None:
            raise Refuse("%s: UserRole::new has arms after the wildcard" % f.rel)
        if ptxt == ["_"]:
            new_default = etxt[2]
        elif len(pat) == 1 and pat[0].k == "id" and pat[0].v in value_consts:
            new_table.append((pat[0].v, etxt[2]))
        elif len(pat) == 1 and pat[0].k == "str":
            new_table.append((None, etxt[2], pat[0].v))
        else:
            raise Refuse("%s: UserRole::new arm pattern %s" % (f.rel, " ".join(ptxt)))
    if new_default is None:
        raise Refuse("%s: UserRole::new has no wildcard arm" % f.rel)
    # get_resources
    if len(impl.get("get_resources", [])) != 1:
        raise Refuse("%s: UserRole::get_resources not found" % f.rel)
    scrut, arms = parse_match_arms(impl["get_resources"][0]["body"], f.rel + ":UserRole::get_resources")
    if [t.v for t in scrut] not in (["&", "self"], ["self"]):
        raise Refuse("%s: get_resources does not match on self" % f.rel)
    res_of = {}
    for pat, ex in arms:
        ptxt = [t.v for t in pat]
        if not (len(ptxt) == 3 and ptxt[0] in ("UserRole", "Self") and ptxt[1] == "::" and ptxt[2] in variants):
            raise Refuse("%s: get_resources arm pattern %s" % (f.rel, " ".join(ptxt)))
        e = rp.parse_expr(ex, f.rel + ":get_resources")
        if not (e[0] == "macro" and e[1] == "vec"):
            raise Refuse("%s: get_resources arm is not vec![..]" % f.rel)
        gs = []
        for it in e[2]:
            if it[0] == "method" and it[2] == "as_ref" and it[1][0] == "path" and len(it[1][1]) == 1 and it[1][1][0] in groups:
                gs.append(it[1][1][0])
            else:
                raise Refuse("%s: get_resources item %s" % (f.rel, rp.show(it)))
        if ptxt[2] in res_of:
            raise Refuse("%s: get_resources: duplicate arm %s" % (f.rel, ptxt[2]))
        res_of[ptxt[2]] = gs
    if set(res_of) != set(variants):
        raise Refuse("%s: get_resources does not cover every variant exactly (%s vs %s)" % (f.rel, sorted(res_of), variants))
    return dict(consts=consts, variants=variants, modules=modules, order_m=order_m, groups=groups, order_g=order_g,
                role_consts=role_consts, all_roles=all_roles, value_consts=value_consts, new_table=new_table,
                new_default=new_default, res_of=res_of)


def read_login_middle(repo):
    f = rp.File(os.path.join(repo, "src/console/middle/login_middle.rs"), "src/console/middle/login_middle.rs")
    statics = f.find_static_refs()
    want = {"IGNORE_CHECK_LOGIN", "STATIC_FILE_PATH", "API_PATH"}
    if set(statics) != want:
        raise Refuse("%s: static refs are %s, expected exactly %s" % (f.rel, sorted(statics), sorted(want)))
    e = rp.parse_expr(statics["IGNORE_CHECK_LOGIN"][1], f.rel + ":IGNORE_CHECK_LOGIN")
    if not (e[0] == "macro" and e[1] == "vec" and all(x[0] == "str" for x in e[2])):
        raise Refuse("%s: IGNORE_CHECK_LOGIN is not a vec of string literals" % f.rel)
    ignore = [x[1] for x in e[2]]

    def regex_lit(name):
        e = rp.parse_expr(statics[name][1], f.rel + ":" + name)
        if not (e[0] == "method" and e[2] == "unwrap" and e[1][0] == "call" and e[1][1] == ("path", ["Regex", "new"])
                and len(e[1][2]) == 1 and e[1][2][0][0] == "str"):
            raise Refuse("%s: %s is not Regex::new(\"..\").unwrap()" % (f.rel, name))
        return e[1][2][0][1]
    static_lit = regex_lit("STATIC_FILE_PATH")
    api_lit = regex_lit("API_PATH")
    return dict(ignore=ignore, static_lit=static_lit, static_exts=rp.regex_dot_exts(static_lit, f.rel + ":STATIC_FILE_PATH"),
                api_lit=api_lit, api_words=rp.regex_slash_words(api_lit, f.rel + ":API_PATH"))


def read_routes(repo):
    files = [rp.File(os.path.join(repo, p), p) for p in ("src/web_config.rs", "src/console/api.rs")]
    rr = actix_routes.RouteReader(files)
    out = []
    rr.config_fn("console_config", out)
    return out, rr


def read_app_chain(repo, fn_name, where_rel="src/main.rs"):
    """`App::new().app_data(..)... .wrap(X).configure(F)` inside fn `fn_name` of main.rs ->
    (list of wrap expressions as text, list of configure arguments as text); any other builder call is refused"""
    f = rp.File(os.path.join(repo, where_rel), where_rel)
    fns = f.find_fns().get(fn_name, [])
    if len(fns) != 1:
        raise Refuse("%s: fn %s not found exactly once" % (where_rel, fn_name))
    body = fns[0]["body"]
    starts = [i for i in range(len(body) - 4) if [t.v for t in body[i:i + 5]] == ["App", "::", "new", "(", ")"]]
    if len(starts) != 1:
        raise Refuse("%s:%s: expected exactly one App::new()" % (where_rel, fn_name))
    i = starts[0]
    j = i
    while j < len(body):
        t = body[j]
        if t.k == "p" and t.v in ("(", "[", "{"):
            j = rp.match_close(body, j) + 1
            continue
        if t.k == "p" and t.v in ("}", ";", ")"):
            break
        j += 1
    e = rp.parse_expr(body[i:j], "%s:%s" % (where_rel, fn_name))
    chain = []
    cur = e
    while cur[0] == "method":
        chain.append((cur[2], cur[3]))
        cur = cur[1]
    chain.reverse()
    if not (cur[0] == "call" and cur[1] == ("path", ["App", "new"]) and not cur[2]):
        raise Refuse("%s:%s: builder does not start with App::new()" % (where_rel, fn_name))
    wraps, configures = [], []
    for name, args in chain:
        if name == "app_data" and len(args) == 1:
            continue
        if name == "wrap" and len(args) == 1:
            wraps.append(rp.show(args[0]))
        elif name == "configure" and len(args) == 1:
            configures.append(rp.show(args[0]))
        else:
            raise Refuse("%s:%s: unsupported App builder call .%s(..) (a route or middleware the tables do not cover)"
                         % (where_rel, fn_name, name))
    return wraps, configures


def read_console_app(repo):
    """the console server must be exactly CheckLogin (+ Logger / Compress) around console_config"""
    wraps, configures = read_app_chain(repo, "run_console_web")
    allowed = {"CheckLogin::new(source_app_data)", "middleware::Logger::default()", "middleware::Compress::default()"}
    if "CheckLogin::new(source_app_data)" not in wraps or not set(wraps) <= allowed:
        raise Refuse("src/main.rs:run_console_web: middleware stack %s is not CheckLogin + Logger/Compress" % wraps)
    if configures != ["console_config"]:
        raise Refuse("src/main.rs:run_console_web: configure(%s) is not exactly console_config" % configures)
    return wraps


def generate(repo):
    read_console_app(repo)
    perm = read_permission(repo)
    lm = read_login_middle(repo)
    services, rr = read_routes(repo)
    L = []
    w = L.append
    w("(** GENERATED by translators/console_tables.py on every run of the C17/C18 checks — do not edit.")
    w("    Sources: src/common/constant.rs, src/user/permission.rs, src/console/middle/login_middle.rs,")
    w("    src/web_config.rs, src/console/api.rs (route functions visited: %s). *)" % ", ".join(rr.visited))
    w("From RN Require Import Auth.Route.")
    w("Local Open Scope string_scope.")
    w("")
    for n in ("EMPTY_STR", "HTTP_METHOD_GET", "HTTP_METHOD_POST", "HTTP_METHOD_ALL"):
        w("Definition %s : string := %s." % (n, coq_str(perm["consts"][n])))
    w("")
    w("(** enum UserRole *)")
    w("Inductive user_role := %s." % " | ".join("Role" + v for v in perm["variants"]))
    w("Definition all_user_roles : list user_role := [%s]." % "; ".join("Role" + v for v in perm["variants"]))
    w("")
    w("(** module tables: the R::Path(path, method) items, in source order (R::WebResource items are")
    w("    front-end hints, not part of any server-side decision; they are listed separately) *)")
    for m in perm["order_m"]:
        paths, webs = perm["modules"][m]
        w("Definition %s : list (string * string) := %s." % (
            m, rp.coq_list(["(%s, %s)" % (coq_str(p), mc) for p, mc in paths])))
        w("Definition %s_web : list string := [%s]." % (m, "; ".join(coq_str(x) for x in webs)))
    w("")
    w("(** role groups: GroupResource::new(vec![&M_..]) *)")
    for g in perm["order_g"]:
        w("Definition %s : list (list (string * string)) := [%s]." % (g, "; ".join(perm["groups"][g])))
    w("")
    for n, v in sorted(perm["value_consts"].items()):
        w("Definition %s : string := %s." % (n, coq_str(v)))
    for n, v in perm["role_consts"].items():
        w("Definition %s : string := %s." % (n, coq_str(v)))
    w("Definition ALL_ROLES : list string := [%s]." % "; ".join(perm["all_roles"]))
    w("")
    w("(** UserRole::new: match arms in order, then the wildcard *)")
    items = []
    for a in perm["new_table"]:
        if a[0] is None:
            items.append("(%s, Role%s)" % (coq_str(a[2]), a[1]))
        else:
            items.append("(%s, Role%s)" % (a[0], a[1]))
    w("Definition role_new_arms : list (string * user_role) := [%s]." % "; ".join(items))
    w("Definition role_new_default : user_role := Role%s." % perm["new_default"])
    w("")
    w("(** UserRole::get_resources *)")
    w("Definition role_resources (r : user_role) : list (list (list (string * string))) :=")
    w("  match r with")
    for v in perm["variants"]:
        w("  | Role%s => [%s]" % (v, "; ".join(perm["res_of"][v])))
    w("  end.")
    w("")
    w("(** login_middle.rs *)")
    w("Definition IGNORE_CHECK_LOGIN : list string := %s." % rp.coq_list([coq_str(x) for x in lm["ignore"]]))
    w("(* STATIC_FILE_PATH = %s *)" % lm["static_lit"].replace("*)", "* )"))
    w("Definition STATIC_FILE_EXTS : list string := [%s]." % "; ".join(coq_str(x) for x in lm["static_exts"]))
    w("(* API_PATH = %s *)" % lm["api_lit"].replace("*)", "* )"))
    w("Definition API_PATH_WORDS : list string := [%s]." % "; ".join(coq_str(x) for x in lm["api_words"]))
    w("")
    w("(** console_config: services in registration order *)")
    w("Definition console_services : list service := %s." % actix_routes.services_coq(services))
    return "\n".join(L) + "\n", dict(perm=perm, login=lm, services=services, visited=rr.visited, skipped=rr.skipped)


def write_if_changed(path, text):
    if os.path.exists(path) and open(path).read() == text:
        return False
    os.makedirs(os.path.dirname(path), exist_ok=True)
    with open(path, "w") as f:
        f.write(text)
    return True


def main():
    here = os.path.dirname(os.path.dirname(os.path.abspath(__file__)))
    repo = sys.argv[1] if len(sys.argv) > 1 else os.path.join(os.path.dirname(here), "repo")
    out = sys.argv[2] if len(sys.argv) > 2 else os.path.join(here, "coq", "Gen", "ConsoleTables.v")
    try:
        text, info = generate(repo)
    except Refuse as ex:
        print("REFUSED: %s" % ex, file=sys.stderr)
        sys.exit(3)
    changed = write_if_changed(out, text)
    print("%s %s (%d services, %d routes, %d modules)" % ("wrote" if changed else "unchanged", out, len(info["services"]),
                                                          len(actix_routes.flatten(info["services"])), len(info["perm"]["modules"])))


if __name__ == "__main__":
    main()
