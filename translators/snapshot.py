#!/usr/bin/env python3
"""snapshot.py — transcribe the snapshot fan-out of src/raft/filestore/raftdata.rs into
coq/Gen/SnapshotTables.v:

  * build_order : the order in which RaftDataHandler::build_snapshot asks the components to write;
  * load_arms   : the if / else-if chain of RaftDataHandler::load_snapshot (tree name -> component,
                  message), including the key test inside the T_SEQUENCE arm and the final
                  "unknown tree => ignored" arm;
  * writes      : for every component, the tree names of the SnapshotRecordDto literals its own
                  source file builds (config/core.rs, sequence/core.rs, raft/db/table.rs,
                  namespace/mod.rs, mcp/core.rs, naming/core.rs, cache/core.rs);
  * the string values of the tree-name constants (common/constant.rs).

Every unrecognised shape is REFUSED.  usage: snapshot.py <repo> <out.v> [--json out.json]"""
import json
import os
import re
import sys

sys.path.insert(0, os.path.dirname(os.path.abspath(__file__)))
from rust_lex import Refuse, lex, fn_body, match_close, split_top, find_seq, j  # noqa: E402

FIELD_COMP = {
    "sequence_db": "KSequence", "config": "KConfig", "table": "KTable", "namespace": "KNamespace",
    "mcp_manager": "KMcp", "naming_actor": "KNaming", "direct_cache_manager": "KCache",
}
COMP_FILE = {
    "KSequence": "src/sequence/core.rs", "KConfig": "src/config/core.rs", "KTable": "src/raft/db/table.rs",
    "KNamespace": "src/namespace/mod.rs", "KMcp": "src/mcp/core.rs", "KNaming": "src/naming/core.rs",
    "KCache": "src/cache/core.rs",
}
BUILD_MSGS = {
    "RaftApplyDataRequest :: BuildSnapshot ( writer . clone ( ) )",
    "ConfigCmd :: BuildSnapshot ( writer . clone ( ) )",
    "TableManagerInnerReq :: BuildSnapshot ( writer . clone ( ) )",
}


def constants(repo):
    src = open(os.path.join(repo, "src/common/constant.rs")).read()
    out = {}
    for m in re.finditer(r'pub\s+static\s+ref\s+(\w+)\s*:\s*Arc<String>\s*=\s*Arc::new\("([^"]*)"\.to_string\(\)\);', src):
        out[m.group(1)] = m.group(2)
    for m in re.finditer(r'pub\s+const\s+(\w+)\s*:\s*&str\s*=\s*"([^"]*)";', src):
        out[m.group(1)] = m.group(2)
    return out


def parse_build(toks):
    _, _, body = fn_body(toks, "build_snapshot")
    stmts = split_top(body, ";")
    tail = j(stmts[-1])
    if tail != "Ok ( ( ) )":
        raise Refuse("build_snapshot: tail `%s`" % tail)
    order = []
    for s in stmts[:-1]:
        t = j(s)
        if t.startswith("log :: info !"):
            continue
        m = re.match(r"^self \. (\w+) \. send \( (.+) \) \. await \? \?$", t)
        if not m or m.group(1) not in FIELD_COMP or m.group(2) not in BUILD_MSGS:
            raise Refuse("build_snapshot: statement not accepted: `%s`" % t)
        order.append(FIELD_COMP[m.group(1)])
    if sorted(order) != sorted(FIELD_COMP.values()):
        raise Refuse("build_snapshot: components %s are not the 7 fields exactly once" % order)
    return order


TREE_TEST = re.compile(r"^record \. tree \. as_str \( \) == (\w+) \. as_str \( \)$")


def parse_cond(ctoks):
    """`record.tree.as_str() == X.as_str()` possibly joined by ||  ->  [X...]"""
    names = []
    for part in split_top(ctoks, "||"):
        m = TREE_TEST.match(j(part))
        if not m:
            raise Refuse("load_snapshot: condition `%s` not accepted" % j(part))
        names.append(m.group(1))
    return names


def classify_load_body(btoks, names):
    s = j(btoks)
    def has(x):
        return x in s
    m = re.findall(r"self \. (\w+) \. send \(", s)
    if s.count(". await ? ?") != len(m):
        raise Refuse("load_snapshot[%s]: every send must be `.await??`" % names)
    if names == ["SEQUENCE_TREE_NAME"]:
        want = ("let key = String :: from_utf8_lossy ( & record . key ) ; let last_id = bin_to_id ( & record . value ) ; "
                "if & key as & str == SEQ_KEY_CONFIG { self . config . send ( ConfigCmd :: InnerSetLastId ( last_id ) ) . await ? ? ; } "
                "else { let req = RaftApplyDataRequest :: LoadSnapshotRecord ( record ) ; self . sequence_db . send ( req ) . await ? ? ; }")
        if s != want:
            raise Refuse("load_snapshot[T_SEQUENCE]: body changed: `%s`" % s)
        return [("KeyIs", "SEQ_KEY_CONFIG", "KConfig", "LInnerSetLastId"), ("KeyOther", "", "KSequence", "LLoadRecord")]
    if len(m) != 1:
        raise Refuse("load_snapshot[%s]: expected one send, got %s" % (names, m))
    comp = FIELD_COMP.get(m[0])
    if comp is None:
        raise Refuse("load_snapshot[%s]: unknown target %s" % (names, m[0]))
    if s == ("let req = RaftApplyDataRequest :: LoadSnapshotRecord ( record ) ; self . %s . send ( req ) . await ? ? ;" % m[0]):
        return [("Any", "", comp, "LLoadRecord")]
    if names == ["CONFIG_TREE_NAME"]:
        want = ("let config_key = ConfigKey :: from ( & String :: from_utf8 ( record . key ) ? as & str ) ; "
                "let value_do = ConfigValueDO :: from_bytes ( & record . value ) ? ; "
                "self . config . send ( ConfigCmd :: SetFullValue ( config_key , value_do . into ( ) ) ) . await ? ? ;")
        if s != want:
            raise Refuse("load_snapshot[T_CONFIG]: body changed: `%s`" % s)
        return [("Any", "", "KConfig", "LSetFullValue")]
    if names in (["USER_TREE_NAME"], ["CACHE_TREE_NAME"]):
        want = ("let key = record . key ; let value = record . value ; let req = TableManagerReq :: Set { table_name : %s . clone ( ) , "
                "key , value , last_seq_id : None , } ; self . table . send ( req ) . await ? ? ;" % names[0])
        if s != want:
            raise Refuse("load_snapshot[%s]: body changed: `%s`" % (names[0], s))
        return [("Any", "", "KTable", "LTableSet")]
    raise Refuse("load_snapshot[%s]: body not accepted: `%s`" % (names, s))


def parse_load(toks):
    _, _, body = fn_body(toks, "load_snapshot")
    arms = []
    p = 0
    if body[0] != "if":
        raise Refuse("load_snapshot: must start with `if`")
    while True:
        # body[p] == "if"
        q = p + 1
        while body[q] != "{":
            if body[q] == "(":
                q = match_close(body, q)
            q += 1
        names = parse_cond(body[p + 1:q])
        e = match_close(body, q)
        for kc, kv, comp, msg in classify_load_body(body[q + 1:e], names):
            arms.append((names, kc, kv, comp, msg))
        if body[e + 1] != "else":
            raise Refuse("load_snapshot: missing final else")
        if body[e + 2] == "if":
            p = e + 2
            continue
        if body[e + 2] != "{":
            raise Refuse("load_snapshot: else shape")
        ee = match_close(body, e + 2)
        els = j(body[e + 3:ee])
        if not els.startswith("log :: warn !") or "send" in els:
            raise Refuse("load_snapshot: the final else must only log: `%s`" % els)
        rest = j(body[ee + 1:])
        if rest != "Ok ( ( ) )":
            raise Refuse("load_snapshot: code after the chain: `%s`" % rest)
        break
    return arms


def component_writes(repo, comp):
    toks = lex(open(os.path.join(repo, COMP_FILE[comp])).read())
    out = []
    i = 0
    while True:
        i = find_seq(toks, ["SnapshotRecordDto", "{"], i)
        if i < 0:
            break
        # skip type definitions / patterns: a literal has `tree :` as first field
        e = match_close(toks, i + 1)
        fields = split_top(toks[i + 2:e], ",")
        fd = {}
        for f in fields:
            if len(f) >= 3 and f[1] == ":":
                fd[f[0]] = j(f[2:])
        i = e
        if "tree" not in fd or "key" not in fd:
            continue
        t = fd["tree"]
        m = re.match(r"^(\w+) \. clone \( \)$", t)
        if m:
            key = fd["key"]
            kc = "SEQ_KEY_CONFIG" if key == "SEQ_KEY_CONFIG . as_bytes ( ) . to_vec ( )" else ""
            out.append(("const", m.group(1), kc))
        elif t == "table_info . name . clone ( )":
            out.append(("dynamic", "", ""))
        else:
            raise Refuse("%s: SnapshotRecordDto tree expression `%s` not accepted" % (COMP_FILE[comp], t))
    if not out:
        raise Refuse("%s: no SnapshotRecordDto literal found" % COMP_FILE[comp])
    return out


def coq_str(s):
    return '"' + s.replace('"', '""') + '"'


def translate(repo):
    consts = constants(repo)
    toks = lex(open(os.path.join(repo, "src/raft/filestore/raftdata.rs")).read())
    order = parse_build(toks)
    arms = parse_load(toks)
    writes = {c: component_writes(repo, c) for c in order}
    for names, kc, kv, comp, msg in arms:
        for n in names:
            if n not in consts:
                raise Refuse("constant %s not found in common/constant.rs" % n)
        if kv and kv not in consts:
            raise Refuse("constant %s not found" % kv)
    return consts, order, arms, writes


def render(consts, order, arms, writes):
    out = ["(** GENERATED by translators/snapshot.py from src/raft/filestore/raftdata.rs, the component",
           "    sources and src/common/constant.rs — do not edit. *)",
           "From Coq Require Import List String.", "From RN Require Import SM.SnapshotTypes.",
           "Import ListNotations.", "Local Open Scope string_scope.", "",
           "(** RaftDataHandler::build_snapshot: the components write in this order *)",
           "Definition build_order : list comp := [" + "; ".join(order) + "].", "",
           "(** RaftDataHandler::load_snapshot: first matching arm wins; no arm = ignored *)",
           "Definition load_arms : list load_arm := ["]
    rows = []
    for names, kc, kv, comp, msg in arms:
        for n in names:
            kcs = {"Any": "KAny", "KeyIs": "(KIs " + coq_str(consts.get(kv, "")) + ")", "KeyOther": "KAny"}[kc]
            rows.append("  mkArm %s %s %s %s" % (coq_str(consts[n]), kcs, comp, msg))
    out.append(";\n".join(rows))
    out.append("].\n")
    out.append("(** tree names of the SnapshotRecordDto literals in each component's own source *)")
    out.append("Definition writes : list (comp * list wtree) := [")
    rows = []
    for c in order:
        ws = []
        for kind, name, kc in writes[c]:
            if kind == "dynamic":
                ws.append("WTableName")
            elif kc:
                ws.append("WTreeKey %s %s" % (coq_str(consts[name]), coq_str(consts[kc])))
            else:
                ws.append("WTree %s" % coq_str(consts[name]))
        rows.append("  (%s, [%s])" % (c, "; ".join(ws)))
    out.append(";\n".join(rows))
    out.append("].\n")
    return "\n".join(out)


def main():
    repo, outp = sys.argv[1], sys.argv[2]
    try:
        consts, order, arms, writes = translate(repo)
    except Refuse as ex:
        print("REFUSED: %s" % ex)
        sys.exit(3)
    text = render(consts, order, arms, writes)
    if not os.path.exists(outp) or open(outp).read() != text:
        os.makedirs(os.path.dirname(outp), exist_ok=True)
        with open(outp, "w") as f:
            f.write(text)
    if "--json" in sys.argv:
        with open(sys.argv[sys.argv.index("--json") + 1], "w") as f:
            json.dump({"build_order": order, "load_arms": arms, "writes": writes}, f, indent=1)
    print("ok: build_order=%d load_arms=%d" % (len(order), len(arms)))


if __name__ == "__main__":
    main()
